#!/bin/bash
# seedimport.sh <propId> <name>: confirm a sub-agent's seeded change in a fresh scratch worktree and import it to /verif/seeded/<name>/
set -u
PID=$1; NAME=$2; SRC=${3:-/tmp/seed-$PID}; W=/tmp/confirm-$PID-$$
export GOFLAGS=-mod=mod GOPROXY=off GOSUMDB=off GOTOOLCHAIN=local
[ -f $SRC/_seed/patch.diff ] || { echo "no patch.diff"; exit 1; }
git -C /repo worktree add -q --detach $W HEAD || exit 1
trap 'git -C /repo worktree remove --force $W >/dev/null 2>&1; rm -rf $W' EXIT
cd $W
git apply $SRC/_seed/patch.diff || { echo "PATCH DOES NOT APPLY"; exit 1; }
echo "== files changed:"; git status --short
go build ./... || { echo "BUILD FAILS"; exit 1; }
echo "== test suite with the change"
go test -vet=off -count=1 ./... 2>&1 | grep -v "no test files" | grep -v "^ok" ; SUITE=${PIPESTATUS[0]}
echo "suite rc=$SUITE"
# demonstration files: everything in _seed except patch.diff and README.md; destination = where the agent put the same-named file
DEMOS=""
for f in $SRC/_seed/*; do
  b=$(basename $f); [ "$b" = patch.diff ] && continue; [ "$b" = README.md ] && continue
  dest=$(cd $SRC && find . -name "$b" -not -path "./_seed/*" | head -1)
  [ -z "$dest" ] && { echo "demo $b: destination not found"; continue; }
  mkdir -p $(dirname $W/$dest); cp $f $W/$dest; DEMOS="$DEMOS $dest"
done
echo "== demos: $DEMOS"
PKGS=$(for d in $DEMOS; do dirname $d; done | sort -u)
for p in $PKGS; do
  names=$(grep -ho "^func Test[A-Za-z0-9_]*" $(for d in $DEMOS; do [ "$(dirname $d)" = "$p" ] && echo $W/$d; done) | sed 's/func //' | paste -sd'|')
  echo "== demo WITH change: go test -run '$names' $p"
  go test -vet=off -count=1 -tags verif -run "^($names)\$" $p 2>&1 | tail -5; WITH=${PIPESTATUS[0]}
  git apply -R $SRC/_seed/patch.diff
  echo "== demo WITHOUT change"
  go test -vet=off -count=1 -tags verif -run "^($names)\$" $p 2>&1 | tail -3; WITHOUT=${PIPESTATUS[0]}
  git apply $SRC/_seed/patch.diff
  echo "with rc=$WITH without rc=$WITHOUT"
done
mkdir -p /verif/seeded/$NAME
cp $SRC/_seed/patch.diff /verif/seeded/$NAME/patch.diff
for d in $DEMOS; do cp $W/$d /verif/seeded/$NAME/; echo "$d" >> /verif/seeded/$NAME/demo_paths.txt; done
cp $SRC/_seed/README.md /verif/seeded/$NAME/AGENT_README.md 2>/dev/null
echo "imported to /verif/seeded/$NAME (suite rc=$SUITE)"
