import json,sys
pid=sys.argv[1]; wt=sys.argv[2]; hint=sys.argv[3] if len(sys.argv)>3 else ""
for l in open('/verif/properties.jsonl'):
    p=json.loads(l)
    if p['id']==pid:
        files=", ".join(p['anchors']['files'][:10])
        print(f"""You are helping to evaluate a verification suite by producing ONE realistic, subtle bug for a Go project. Work ONLY inside the git worktree /tmp/{wt} (a checkout of the Go project relex/slog-agent, a high-throughput syslog log agent). Do NOT read or touch anything under /verif, /root/.vp or /repo — they are off limits; use only /tmp/{wt}.

Environment: no network. Before every go command run: `export GOFLAGS=-mod=mod GOPROXY=off GOSUMDB=off GOTOOLCHAIN=local`. The project's test suite is `cd /tmp/{wt} && go test -vet=off -count=1 ./...` (takes ~30 s; all packages currently pass).

The property to break (this is the only specification you get):

---
{p['id']} — {p['title']}

{p['statement']}

Quantifier: {p['quantifier']['text']}
---
The relevant code is mainly in: {files}. {hint}

Your task: make a small source change (a few lines, in non-test .go files of the project, NOT in files with the build tag `verif`) that BREAKS this property while (1) the project still compiles, and (2) the existing test suite still passes completely, unedited. The change must look like a plausible mistake or well-meant refactoring a developer could make, and it must need something SPECIFIC to manifest — a particular interleaving, a crash or fault at a particular point, a multi-step sequence of operations, an unusual input, or two cooperating sites that each look fine alone — NOT something that ordinary use (the happy path) would expose at once. Do not add obviously artificial triggers (magic constants, special-casing test names, random failures).

Also write a demonstration: a Go test file (or small program) that FAILS with your change and PASSES without it (verify both by reverting and re-applying your patch: `git diff > /tmp/{wt}/_seed/patch.diff; git apply -R ...; git apply ...` — do NOT use `git stash`: the stash is shared between all worktrees of the repository and other agents work in sibling worktrees). The demonstration may use package-internal access (a _test.go file inside the relevant package) and fakes; keep it deterministic enough to fail reliably with the change (loop several times if a race is needed, and state the observed failure rate).

Deliverables, all inside /tmp/{wt}/_seed/ :
 - patch.diff : output of `git diff` for the source change ONLY (not including the demonstration or _seed files)
 - the demonstration file(s), plus a line in README.md saying where each must be copied inside the repository to run and the exact command to run it
 - README.md : which property it breaks and how, what specifically is needed for the bug to manifest, and the commands you ran with their outcomes (test suite with the change: pass; demonstration with the change: fail; demonstration without: pass).
Leave the worktree with your source change APPLIED (uncommitted) and the demonstration file(s) copied into place. In your final answer, summarise the change in 5-10 lines.""")
