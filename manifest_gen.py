#!/usr/bin/env python3
"""Regenerates MANIFEST.json from the table below (kept in one place so that it is always valid)."""
import json, os, subprocess
ROOT = os.path.dirname(os.path.abspath(__file__))

CHECKS = {
 "C13": dict(engine="c13time", category="exploration", design="§3 C13",
   technique="property-based testing (rapid) + exhaustive enumeration of all 1-6 digit fractions against an arithmetic reference instant",
   text="Exhaustive over every fraction of 1-6 digits, every calendar day of 8 years and every ±hh:mm/±hhmm offset; rapid-generated stamps over year 0-9999 with 0-9 fraction digits compared to an instant computed by the harness's own civil-date arithmetic (to the nanosecond, plus zone offset). Totality: generated strings (raw bytes, prefixes, one-byte edits, junk suffixes, NIL) must not panic; not-date-shaped strings must be counted as timeError and leave the fallback time untouched.",
   note="Valid domain = upper-case T/Z, seconds 0-59, offset hours 0-23 (sound subset of RFC 3339); stamps without an offset are outside the property. Absence of violations outside the explored cases is not claimed."),
 "C09": dict(engine="c09parse", category="exploration", design="§3 C09",
   technique="property-based testing (rapid) of lines built from components against the construction-known fields + exhaustive PRI 0..200 and cut-boundary enumeration",
   text="Lines are rendered from generated components, parsed through sysloginput.Config.NewParser, and every field must equal its component; PRI 0..200 enumerated under two level mappings; messages of limit-8..limit+8 bytes for every rune width/alignment enumerated, rapid cases around the message and record limits at scaled (64/200/1000 B) and production (1 MiB) limits; overflow cut must be the longest rune-aligned prefix and be counted; input counters must grow by exactly one record and len(input) bytes per Parse call.",
   note="defs.InputLogMaxMessageBytes/RecordBytes are package variables scaled by the harness keeping MaxRecord = MaxMessage+256; about 1% of cases (20% in thorough) use the production 1 MiB limit. Messages that are not valid UTF-8 are only checked for the length bound and the overflow count (documented clean-up may strip invalid bytes)."),
 "C10": dict(engine="c10serial", category="exploration", design="§3 C10",
   technique="property-based testing (rapid) with an independent strict MessagePack decoder and a reference inline/unescape implementation; exhaustive value lengths across every length-class boundary",
   text="Generated schemas (1-24 fields, reserved slots), environment/hidden sets and rewrite chains are loaded through the real YAML config path; records with values at and around 15/16, 31/32, 255/256, 65535/65536 bytes (and up to 70000) of ASCII, arbitrary bytes and all escape forms are serialized by 1-3 serializers in sequence; each output must decode (own strict decoder, no trailing bytes) to the timestamp, exactly the non-empty non-masked fields, the complete environment map, and the reference rewrite results; the record itself must stay unchanged.",
   note="Record size is kept below the serializer's documented buffer (2x InputLogMaxRecordBytes, scaled to 400 KB); over-size records belong to C07. Timestamps are limited to the EventTime range (uint32 seconds)."),
 "C11": dict(engine="c11chunk", category="exploration", design="§3 C11",
   technique="property-based testing (rapid) of write/flush histories with independent Forward (own MessagePack decoder) and gzip+JSON decoders; boundary enumeration around byte and record limits",
   text="Generated sequences of WriteStream/FlushBuffer calls (caller buffer reused and overwritten like the serializer's) through Config.NewChunkMaker of the Forward, PackedForward, CompressedPackedForward and Datadog outputs; every chunk must decode, carry the tag, option.chunk == LogChunk.ID (accepted by MatchChunkID, unique, increasing), option.size == number of entries; the concatenation of all chunks equals the written sequence byte for byte; no chunk exceeds the byte/record limit unless it holds one record; flushing nothing yields nothing.",
   note="Forward limits are set small through hook H3 (SetChunkLimitsForVerif); production 7 MiB limits are exercised in the thorough tier; Datadog limits are production constants. The same-nanosecond branch of the chunk ID generator cannot be reached without a clock hook (not claimed)."),
 "C14": dict(engine="c14redact", category="exploration", design="§3 C14",
   technique="property-based testing (rapid): constructive texts with construction-known answer + arbitrary texts checked by a DP alignment against span-validity and coverage predicates; exhaustive short strings over the critical alphabet",
   text="(A) Texts F0 A1 F1 .. An Fn with generated addresses and closed filler atoms (lone @, x@, @x, dot-less, numeric, slash-preceded, multi-byte, invalid bytes, escapes; adjacency; truncated domain at end of text) must become exactly fillers+REDACTED and count once; every non-address byte enumerated as neighbour. (B) Arbitrary texts (all strings <=5 over {a,1,.,@,/,space,-}, soups, edited constructive texts, raw bytes): a dynamic-programming alignment must map input to output using only valid redaction spans, cover every unambiguous address found by an independently written matcher, cover no purely numeric / slash-preceded / unshaped '@', and preserve everything else.",
   note="Supported shape uses maximal-run semantics (an address is the maximal run of address characters around '@'); domains that start and end with a digit but contain letters are a documented grey zone in which either behaviour is accepted. The escape caveat documented in config_sample.yml (\\nbob@x.y swallows the n) is respected by the generator."),
 "C08": dict(engine="c08frame", category="exploration", design="§3 C08",
   technique="property-based testing (rapid) + exhaustive 1-/2-cut split enumeration of the real multiLineReader against a line-based reference framer",
   text="Streams of single- and multi-line records (tricky continuation lines: empty, head-like but <32 bytes, 4-digit PRI, wrong version; leading garbage) are delivered to the real multiLineReader (hook H2, soft limits 128/200/1000, buffers 3-4x so relocation happens) under every 1- and 2-cut split of fixed streams, and under generated splits (up to 12 cuts biased to header bytes and newlines, byte-wise delivery) with up to 4 Flush() calls; records beginning with a real head line must equal the reference framer's records, once and in order; with a flush between a head and its last continuation the record is the head plus exactly the continuation lines completed before that flush.",
   note="Reader driven in-process with a scripted io reader; each logical record is kept <= the soft limit (over-long lines are C07's subject). Lines orphaned by a flush are not compared (the property promises nothing about them). The real-socket path (NetConnWrapper deadlines) is exercised by the end-to-end engines."),
 "C06": dict(engine="c06route", category="exploration", design="§3 C06",
   technique="exhaustive enumeration of key-tuple pairs over a separator alphabet + property-based testing (rapid) of the real orchestrator with a recording pipeline starter and real queue directories",
   text="Records with generated key tuples go through the real byKeySet orchestrator (1-3 sinks) whose PipelineStarter is a recording fake; each distinct tuple must get exactly one pipeline, whose tag equals the harness's reference expansion of the tag template; buffer IDs must be injective; the real hybridbuffer must create one directory per ID inside the root, with an .id file that round-trips, and ListBufferIDs must list exactly the queues holding chunks. All ordered pairs of tuples over {'', a, b, ab, bc, ',', 'a,b', /, ., .., NUL, space} for 1 and 2 key fields and all 3-way splits of four strings are enumerated; rapid adds arbitrary-byte tuples with boundary-shifted siblings.",
   note="Known finding route:buffer-id-comma-collision (pipeline ID = strings.Join(keys, ',')) is listed in known_findings.jsonl; the oracle continues past it. The empty single key (queue = root directory) and IDs longer than 200 bytes are not put on disk here. Re-attachment of queued chunks at startup is checked by the restart layer of the end-to-end engine."),
 "C15": dict(engine="c15transform", category="exploration", design="§3 C15",
   technique="property-based testing (rapid) of generated transform programs against an independent reference interpreter (differential), with a prefix bound for sampled dropping",
   text="Transform programs from a grammar (every transform type except parseTime/redactEmail which have their own properties; all match operators; nesting to depth 3) are rendered to YAML and loaded through the real verification and construction path, then run on batches of records whose values are substrings of one pooled backing buffer and are biased to the program's own literals and limits; fields, PASS/DROP, the unescaped flag and every metric label count must equal the reference interpreter; sampled drops are decided by observing the documented per-label counters and must stay within one record of the percentage at every prefix.",
   note="Where the documentation is silent (addFields with an empty expansion leaves the field, mapValue default may clear it, class-only patterns ignore maxLen) the reference follows the behaviour of the pinned tree and acts as a regression oracle. addFields steps with several fields never read each other's destinations (Go map order); glob '?' is excluded (third-party rune semantics); regex semantics are those of Go's regexp package, which is trusted."),
 "C16": dict(engine="c16config", category="fault_enumeration", design="§3 C16",
   technique="exhaustive site x fault enumeration on the YAML node tree of valid configurations + property-based generation (rapid) of valid configuration files, with full synchronous instantiation as the oracle",
   text="Every node of the sample configuration and of a second hand-written one is deleted, emptied, or (scalars) replaced by 19 fault values and by every schema field name (about 15 000 mutants); rapid adds generated valid configuration files (transform grammar, byKeySet/singleton, 1-2 outputs with rewrites) with and without a random mutation. run.ParseConfigFile must return a value, never panic; every accepted file is instantiated completely - parser and extractions, pipeline transforms, serializers, chunk makers (55 records processed twice synchronously), then the real orchestrator with real hybrid buffers and a recording consumer - without panic or memory fault.",
   note="Crash signatures are normalised (innermost repository frame + masked message). buffer rootPath values and the anchors section are not mutated (not expressions). defs sizes are scaled (8 KB messages) because they only size buffers here. A mutant that is accepted and merely behaves differently is not a violation of this property."),
 "C12": dict(engine="c12isolate", category="exploration", design="§3 C12",
   technique="differential / metamorphic property-based testing (rapid): one long-lived pipeline versus fresh instances per record, with measured object reuse; concurrent variant under the race detector",
   text="Generated record streams are processed on one long-lived allocator, parser, extractions, transforms and serializers (the caller's line buffer is overwritten after every call, GC is disabled during a case so that sync.Pool reuse really happens) and, record by record, on fresh instances; the serialized output of every record on every output must be identical. Runs under the sample configuration (two outputs) and generated configurations; a sixth of the cases use 2-6 goroutines with private parsers sharing one allocator, and the thorough tier repeats them under -race.",
   note="sync.Pool reuse cannot be forced, only encouraged; the evidence reports the measured number of cases in which a LogRecord object was reused after a record with a different field pattern (pointer identity) and only those count as non-trivial. Sampled drops (documented stateful exception) are turned into 100% drops. Metric label attribution is C19's subject."),
 "C07": dict(engine="c07robust", category="exploration", design="§3 C07",
   technique="property-based testing (rapid) of hostile inputs through the synchronous pipeline with a sentinel-record metamorphic oracle; native coverage-guided fuzzing (go test -fuzz) in the thorough tier; real-listener scenarios in the end-to-end engine",
   text="Layer A: hostile byte strings (structured header mutations, NIL/short timestamps, invalid UTF-8, tokens and records padded to every internal boundary up to 4x MaxRecordBytes) are presented as records to the real parse->extract->metric keys->transform->serialize->pack path under the sample and generated configurations, with panics and memory faults recovered; every input must be counted exactly once and two well-formed sentinel records processed right after it must give byte-identical output to a fresh pipeline. The thorough tier adds coverage-guided fuzzing seeded with the repository's test inputs and the hostile constants that crashed the pinned tree.",
   note="Limits are defs variables scaled to 300/2000/70000 bytes with MaxRecord = MaxMessage+256 (about 1% of quick and 10% of thorough cases use the production 1 MiB). Inputs longer than the listener's line buffer (4x MaxRecordBytes) are cut as the listener would. Wedging (hangs) and the TCP path are covered by the listener scenarios of the end-to-end engine."),
 "C02": dict(engine="c02client", category="exploration", design="§3 C02",
   technique="model-based property-based testing (rapid) with injected faults: the real ClientWorker against a scripted connection, history checked by invariants",
   text="The real baseoutput.ClientWorker (sender and acknowledger goroutines, leftovers, reconnect policy) runs against a scripted ClosableClientConnection whose successive connect/send/ping/ACK-read operations succeed, fail, block until closed or deadline, return an unknown ID or answer late, in explicit-ID or in-order style; chunks are fed with gaps; a stop request is issued when the k-th I/O operation begins or after a drain wait; SIGUSR1 and max-session-age reconnects are injected. The recorded history must satisfy: delivered only after the upstream acknowledged that chunk on a connection where its send succeeded; every chunk taken from the queue resolved exactly once and OnFinished last; per connection increasing IDs without skipping an older unresolved chunk; termination after the stop request.",
   note="Timeouts are defs variables scaled to 2-80 ms. Interleavings of sender and acknowledger are varied by scripted per-operation delays and by the Go scheduler (8-16 processes, plus -race shards in thorough), not enumerated. Liveness (retransmission until acknowledged) is observed within a 400 ms drain budget and reported as a class, never as a violation; the safety form (nothing lost at stop) is what is decided."),
 "C03": dict(engine="c03buffer", category="exploration", design="§3 C03",
   technique="stateful model-based property-based testing (rapid) of the real hybrid buffer with a harness-controlled consumer; invariants checked at every quiescent point",
   text="Histories of accept / consumer take+confirm / take+hold (handed back at its end) / stall / stop early / arm / destroy+restart run against the real hybridbuffer on one directory with memory windows of 2-8 and queue capacities of 4-64 chunks, size limits from half a chunk to ample, and an unusable queue directory. After every Destroy: each accepted chunk is confirmed with its file gone, or a byte-identical file, or counted in dropped_chunks_total (exactly); nothing is delivered twice or altered; delivery follows acceptance order with recovered chunks first; the files stay within maxBufSize plus the chunks handed back at that shutdown; Accept returns while the consumer stalls; once the in-memory window provably holds >= Max/2 chunks every further accepted chunk is unloaded or dropped.",
   note="Capacities are defs variables scaled down; a history in which more files are on disk at a start than the scaled queue capacity (production: 500 000) skips the size bound from there on. Concurrency between Accept, the feeder and the consumer callbacks is whatever the Go scheduler gives (8-16 processes, -race shards in thorough)."),
 "C04": dict(engine="c04crash", category="fault_enumeration", design="§3 C04",
   technique="fault enumeration with victim processes (RLIMIT_FSIZE-bounded writes and kill points) + property-based generation (rapid) of the remaining parameters, strict byte-identity oracle after restart",
   text="A victim process (the harness binary re-executed) spills chunks through the real hybrid buffer with a memory window of 2 and suffers one fault while one chunk file is written: the write stops at byte k because of RLIMIT_FSIZE (error path: short write then EFBIG), the same followed by SIGKILL right after the partial write (crash mid-write at offset k), SIGKILL at the kill points after open / write / close / rename (hook H1), or the file is found empty at the next start. k is enumerated 0..size for sizes {1,7,48} (quick) or every size 1..48 (thorough) for the affected chunk first, in the middle and last; rapid adds sizes up to 200 KB. The parent restarts a buffer on the directory with a strict consumer: every delivered chunk must be byte-identical to a produced one, the affected chunk intact or absent (and counted as dropped when the victim survived), every other persisted chunk delivered.",
   note="Only process death and failing/short syscalls are modelled; reordering or loss below the file system (no fsync model) is out of reach. The Go runtime does not let SIGXFSZ terminate the process, so the 'default action' variant is the same error path as the ignored one (kept as evidence). Damage to file contents that the agent itself cannot produce any more (external truncation to k>0) is undetectable without a checksum and is not claimed."),
 "C17": dict(engine="c17reload", category="exploration", design="§3 C17",
   technique="schedule-controlled model-based testing: the real ReloadableOrchestrator between gated recording fakes, schedules generated by rapid and explored systematically (stateless DFS); history invariants as oracle; end-to-end reload scenarios in the e2e engine",
   text="run.NewReloadableOrchestrator runs with recording fake downstream orchestrators/sinks and a scripted InitiateReloadingFunc; connection actors (NewSink, Accepts, socket closed, final flush, Close; descriptor reuse as the real listener produces it) and reloads with valid/invalid configuration (hook H4) are goroutines whose every call into a fake is a gate, released one at a time by the generated schedule, so the windows 'downstream sink created but not yet registered', 'reload between Accept and Close' and 'old sink closing while the slot is reused' are reached deterministically. Four small scenarios are explored systematically (all schedules up to a bound), larger ones are drawn. The history must show: nothing reaches a sink or orchestrator after its Shutdown/Close, every batch reaches exactly one live downstream sink, a failed reload has no downstream effect and counts one failure, every sink of the live orchestrator is closed exactly once, exactly one orchestrator remains, no panic, no deadlock.",
   note="Interleavings inside the lock-protected sections are not controlled; an actor blocked on the orchestrator's lock is recognised by a 3 ms quiescence heuristic, which can only change which schedule is explored, never the verdict. The thorough tier repeats the runs under -race. New-configuration compatibility rules and real SIGHUP delivery are exercised by the end-to-end engine."),
}

NOT_YET = {}

def main():
    props = [json.loads(l) for l in open(os.path.join(ROOT, "properties.jsonl"))]
    checks = []
    na = []
    for p in props:
        pid = p["id"]
        c = CHECKS.get(pid)
        if not c:
            na.append({"property_id": pid, "reason": NOT_YET.get(pid, "check not built yet in this round (engine under construction, see DESIGN.md §7); not claimed until it exists and passes its sensitivity self-test")})
            continue
        checks.append({
            "property_id": pid,
            "quick_cmd": "./check %s quick" % pid,
            "thorough_cmd": "./check %s thorough" % pid,
            "evidence_file": "/verif/evidence/%s.json" % pid,
            "replay_cmd_template": "./check %s quick --replay {path}" % pid,
            "engine": c["engine"],
            "level_claimed": {"category": c["category"], "text": c["text"], "design_ref": c["design"]},
            "level_note": c["note"],
            "technique": c["technique"],
        })
    hooks_commits = []
    try:
        out = subprocess.run(["git", "-C", "/repo", "log", "--format=%h %s"], stdout=subprocess.PIPE, text=True).stdout
        hooks_commits = [l.split()[0] for l in out.splitlines() if " verif-hook:" in " " + l or l.split(" ", 1)[1].startswith("verif hook")]
    except Exception:
        pass
    m = {
        "version": 1,
        "setup_cmd": "./check --setup",
        "hooks": {
            "guard": "verif (Go build tag)",
            "enable": "go test -tags verif (the harness module /verif/harness replaces github.com/relex/slog-agent with /repo and always builds with -tags verif)",
            "baseline_off_cmd": "cd /repo && GOFLAGS=-mod=mod GOPROXY=off GOSUMDB=off go test -vet=off -count=1 -timeout 25m ./...",
            "source_commits": hooks_commits,
            "add_only": True,
        },
        "engines": sorted([{"name": c["engine"], "path": "harness/" + c["engine"], "serves_properties": [pid], "kind_free_text": c["technique"]} for pid, c in CHECKS.items()], key=lambda e: e["name"]),
        "checks": checks,
        "not_applicable": na,
        "notes": "Driver: ./check <id> quick|thorough [--replay path]; exit 0 held / 1 VIOLATION / 2 inconclusive. Known and fixed findings: known_findings.jsonl. Sensitivity set: mutants/ and seeded/ via ./check --selftest.",
    }
    json.dump(m, open(os.path.join(ROOT, "MANIFEST.json"), "w"), indent=1)
    print("MANIFEST.json: %d checks, %d not claimed" % (len(checks), len(na)))

if __name__ == "__main__":
    main()
