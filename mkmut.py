#!/usr/bin/env python3
"""mkmut.py <name> <file-in-repo> <old> <new> : creates /verif/mutants/<name>.patch (does not leave /repo modified)."""
import sys, subprocess, os
name, f, old, new = sys.argv[1:5]
p = os.path.join("/repo", f)
s = open(p).read()
if s.count(old) != 1:
    sys.exit("old string occurs %d times" % s.count(old))
open(p, "w").write(s.replace(old, new))
try:
    d = subprocess.run(["git", "-C", "/repo", "diff", "--", f], stdout=subprocess.PIPE, text=True).stdout
    open("/verif/mutants/%s.patch" % name, "w").write(d)
finally:
    subprocess.run(["git", "-C", "/repo", "checkout", "--", f])
print("ok", name)
