package c14redact

// C14, records alive together: when redactEmail runs among an input's extractions, the records of one read are
// transformed one after the other and stay alive until the batch is handed on. Every record's field must still be the
// expected text after the following records went through the same transform instance.

import (
	"fmt"
	"strings"
	"testing"

	"github.com/relex/gotils/logger"
	"github.com/relex/slog-agent/base"
	"github.com/relex/slog-agent/base/btest"
	"github.com/relex/slog-agent/transform/tredactemail"
	"pgregory.net/rapid"

	"verifharness/vh"
)

type BatchCase struct {
	Texts []ConsCase `json:"texts"`
}

func runBatch(c BatchCase) vh.Result {
	res := vh.Result{}
	schema := base.MustNewLogSchema([]string{"other", "log"})
	cfg := &tredactemail.Config{Key: "log", MetricLabel: "redacted"}
	cfg.Type = "redactEmail"
	if err := cfg.VerifyConfig(schema); err != nil {
		panic(err)
	}
	reg, _ := btest.NewStubLogCustomCounterRegistry()
	tf := cfg.NewTransform(schema, logger.Root(), reg)
	type live struct {
		rec  *base.LogRecord
		in   string
		want string
	}
	var alive []live
	withAddr := 0
	for i, t := range c.Texts {
		in, want := t.text()
		if len(t.Addrs) > 0 {
			withAddr++
		}
		rec := schema.NewTestRecord1(base.LogFields{"untouched", strings.Clone(in)})
		rec.RawLength = 321
		if r := tf.Transform(rec); r != base.PASS {
			res.Violation = vh.Fail("redact:dropped", "redactEmail dropped record %d", i)
			return res
		}
		if got := string(rec.Fields[1]); got != want {
			res.Violation = vh.Fail("redact:constructive-mismatch", "record %d: input %q\n got  %q\n want %q", i, in, got, want)
			return res
		}
		alive = append(alive, live{rec, in, want})
	}
	for i, l := range alive {
		if got := string(l.rec.Fields[1]); got != l.want {
			res.Violation = vh.Fail("redact:value-changed-by-later-record", "record %d of %d: its field was %q right after its own transformation and is %q after the following records went through the same transform (input %q): text outside the redacted spans is not preserved", i, len(alive), l.want, got, l.in)
			return res
		}
		if l.rec.Fields[0] != "untouched" {
			res.Violation = vh.Fail("redact:other-field", "record %d: another field changed to %q", i, l.rec.Fields[0])
			return res
		}
	}
	res.NonTrivial = withAddr >= 1 && len(c.Texts) >= 2
	res.Classes = append(res.Classes, fmt.Sprintf("records-%d", len(c.Texts)), fmt.Sprintf("with-address-%d", min(withAddr, 3)))
	return res
}

func genBatch(t *rapid.T) BatchCase {
	var c BatchCase
	for n := rapid.IntRange(2, 6).Draw(t, "n"); n > 0; n-- {
		c.Texts = append(c.Texts, genCons(t))
	}
	return c
}

func TestC14Batch(t *testing.T) {
	vh.Run(t, vh.Spec[BatchCase]{
		Name: "batch", Gen: genBatch, Run: runBatch, Quick: 20000, Thorough: 200000,
		Rule: "2-6 constructive texts (as in the constructive check) go through ONE redactEmail transform instance as separate records that all stay alive; oracle = every field equals its expected text right after its own transformation and still after all the others were transformed; non-trivial = at least two records and one with an address",
	})
}
