// C14 — e-mail redaction is complete and touches nothing else.
package c14redact

import (
	"fmt"
	"strings"
	"testing"

	"github.com/relex/gotils/logger"
	"github.com/relex/slog-agent/base"
	"github.com/relex/slog-agent/base/btest"
	"github.com/relex/slog-agent/transform/tredactemail"
	"pgregory.net/rapid"

	"verifharness/vh"
)

func init() { vh.QuietLogs(logger.ErrorLevel) }

type env struct {
	schema base.LogSchema
	tf     base.LogTransform
	lookup btest.LookupStubCustomerCounterFunc
}

var shared *env

func getEnv() *env {
	if shared != nil {
		return shared
	}
	schema := base.MustNewLogSchema([]string{"other", "log"})
	cfg := &tredactemail.Config{Key: "log", MetricLabel: "redacted"}
	cfg.Type = "redactEmail"
	if err := cfg.VerifyConfig(schema); err != nil {
		panic(err)
	}
	reg, lookup := btest.NewStubLogCustomCounterRegistry()
	shared = &env{schema, cfg.NewTransform(schema, logger.Root(), reg), lookup}
	return shared
}

// apply runs the real transform and returns the new field value and the counter deltas.
func apply(text string) (string, int64, int64, *vh.Finding) {
	e := getEnv()
	rec := e.schema.NewTestRecord1(base.LogFields{"untouched", strings.Clone(text)})
	rec.RawLength = 321
	bc, bl := e.lookup("redacted")
	if r := e.tf.Transform(rec); r != base.PASS {
		return "", 0, 0, vh.Fail("redact:dropped", "redactEmail dropped the record")
	}
	ac, al := e.lookup("redacted")
	if rec.Fields[0] != "untouched" {
		return "", 0, 0, vh.Fail("redact:other-field", "another field changed to %q", rec.Fields[0])
	}
	return string(rec.Fields[1]), ac - bc, al - bl, nil
}

func isWord(c byte) bool { return c >= 'a' && c <= 'z' || c >= 'A' && c <= 'Z' || c >= '0' && c <= '9' }
func isAddr(c byte) bool { return isWord(c) || c == '.' || c == '-' || c == '_' }

// ---------------------------------------------------------------------------
// A. constructive oracle: text = F0 A1 F1 ... An Fn, expected output known by construction

type ConsCase struct {
	Fillers   []string `json:"fillers"`   // len = len(Addrs)+1; filler i>0 empty means adjacency
	Addrs     []string `json:"addrs"`
}

func (c ConsCase) text() (string, string) {
	var in, out strings.Builder
	for i, f := range c.Fillers {
		in.WriteString(f)
		out.WriteString(f)
		if i < len(c.Addrs) {
			in.WriteString(c.Addrs[i])
			out.WriteString("REDACTED")
		}
	}
	return in.String(), out.String()
}

func runCons(c ConsCase) vh.Result {
	res := vh.Result{}
	in, want := c.text()
	got, dc, dl, f := apply(in)
	if f != nil {
		res.Violation = f
		return res
	}
	adjacent := false
	for i := 1; i < len(c.Fillers)-1; i++ {
		if c.Fillers[i] == "" {
			adjacent = true
		}
	}
	res.NonTrivial = len(c.Addrs) > 0 && (adjacent || c.Fillers[0] != "" || c.Fillers[len(c.Fillers)-1] != "")
	res.Classes = append(res.Classes, fmt.Sprintf("addresses-%d", min(len(c.Addrs), 4)))
	if adjacent {
		res.Classes = append(res.Classes, "adjacent-addresses")
	}
	if len(c.Addrs) > 0 && !strings.Contains(c.Addrs[len(c.Addrs)-1][strings.IndexByte(c.Addrs[len(c.Addrs)-1], '@'):], ".") {
		res.Classes = append(res.Classes, "truncated-domain")
	}
	if got != want {
		key := "redact:constructive-mismatch"
		if len(c.Addrs) > 0 && strings.Contains(got, "@") && countAddrs(got, c.Addrs) > 0 {
			key = "redact:address-remains"
		} else if len(c.Addrs) == 0 {
			key = "redact:non-address-changed"
		}
		res.Violation = vh.Fail(key, "input %q\n got  %q\n want %q", in, got, want)
		return res
	}
	wantCount := int64(0)
	if len(c.Addrs) > 0 {
		wantCount = 1
	}
	if dc != wantCount || dl != wantCount*321 {
		res.Violation = vh.Fail("redact:counter", "input %q: redacted counter +%d (bytes +%d), want +%d", in, dc, dl, wantCount)
	}
	return res
}

func countAddrs(s string, addrs []string) int {
	n := 0
	for _, a := range addrs {
		if strings.Contains(s, a) {
			n++
		}
	}
	return n
}

var (
	wordChars  = []rune("abcxyzABZ0189")
	addrChars  = []rune("abcxyzABZ0189._-")
	letters    = []rune("abcxyzABZ")
	genWordCh  = rapid.RuneFrom(wordChars)
	genAddrCh  = rapid.RuneFrom(addrChars)
	genLetter  = rapid.RuneFrom(letters)
)

// genAddress: local [addr]*[word] '@' domain [letter][addr minus '.']* '.' [word][addr]*  (first domain char is a letter => never "numeric")
func genAddress(t *rapid.T, allowTruncated bool) string {
	local := rapid.StringOfN(genAddrCh, 0, 8, -1).Draw(t, "localHead") + string(genWordCh.Draw(t, "localLast"))
	d1 := string(genLetter.Draw(t, "domFirst")) + strings.ReplaceAll(rapid.StringOfN(genAddrCh, 0, 6, -1).Draw(t, "domHead"), ".", "-")
	if allowTruncated {
		switch rapid.IntRange(0, 2).Draw(t, "trunc") {
		case 0:
			return local + "@" + d1 // truncated before the dot
		case 1:
			return local + "@" + d1 + "." // truncated right after the dot
		}
	}
	d2 := string(genWordCh.Draw(t, "tldFirst")) + rapid.StringOfN(genAddrCh, 0, 8, -1).Draw(t, "tldRest")
	return local + "@" + d1 + "." + d2
}

// filler atoms: none of them contains an address of the supported shape; atoms are closed (they start and end with non-address characters)
// (the multi-byte ones include code points whose LOW byte is a letter, a digit or one of . - _ : に U+306B 'k', š U+0161 'a',
// и U+0438 '8', 中 U+4E2D '-', Į U+012E '.', ş U+015F '_', 𐑁 U+10441 'A')
var neutralSeps = []string{" ", ",", ";", ":", "(", ")", "[", "]", "\"", "'", "=", "#", "é", "€", "😀", "\\n", "\\t", "<", ">", "!", "\xff", "\x00", "\n", "|", "に", "š", "и", "中", "Į", "ş", "𐑁", "メ"}

func genAtom(t *rapid.T) string {
	sep := rapid.SampledFrom(neutralSeps)
	word := rapid.StringOfN(genAddrCh, 1, 6, -1)
	k := rapid.IntRange(0, 11).Draw(t, "atom")
	s1, s2 := sep.Draw(t, "s1"), sep.Draw(t, "s2")
	if s2 == "\\n" || s2 == "\\t" {
		s2 += " " // an escape ends with a letter, which would extend a following local part (documented caveat): close the atom
	}
	switch k {
	case 0, 1, 2:
		return s1 + word.Draw(t, "w") + s2
	case 3:
		if isAddr(s1[len(s1)-1]) {
			s1 += " "
		}
		return s1 + "@" + s2 // lone @
	case 4:
		return s1 + word.Draw(t, "w") + "@" + s2 // x@ followed by a non-word char
	case 5:
		if isAddr(s1[len(s1)-1]) {
			s1 += " "
		}
		return s1 + "@" + word.Draw(t, "w") + s2 // @x preceded by a non-word char
	case 6: // x@y without a dot, not at the end of text
		return s1 + string(genWordCh.Draw(t, "a")) + "@" + strings.ReplaceAll(word.Draw(t, "w"), ".", "") + "x" + s2
	case 7: // numeric domain
		return s1 + word.Draw(t, "w") + "a@" + rapid.StringMatching(`[0-9]{1,3}\.[0-9]{1,3}`).Draw(t, "num") + s2
	case 8: // address directly preceded by '/'
		return s1 + "/" + word.Draw(t, "w") + "a@b" + word.Draw(t, "w2") + ".co" + s2
	case 9: // dot followed by a non-word character
		return s1 + "u@host." + rapid.SampledFrom([]string{"/", " ", ".", "-x", "_"}).Draw(t, "afterDot") + s2
	case 10: // '/' not directly before an address
		return s1 + "/" + s2
	default:
		return s1 + s2
	}
}

func genFiller(t *rapid.T, maxAtoms int) string {
	n := rapid.IntRange(0, maxAtoms).Draw(t, "nAtoms")
	var b strings.Builder
	for i := 0; i < n; i++ {
		b.WriteString(genAtom(t))
	}
	return b.String()
}

func genCons(t *rapid.T) ConsCase {
	n := rapid.IntRange(0, 4).Draw(t, "nAddrs")
	var c ConsCase
	for i := 0; i <= n; i++ {
		f := genFiller(t, 3)
		if i > 0 && i < n && rapid.IntRange(0, 3).Draw(t, "adjacent") == 0 {
			f = "" // back-to-back addresses
		}
		if i == 0 && rapid.IntRange(0, 4).Draw(t, "startsWithAddr") == 0 {
			f = ""
		}
		if i == n && rapid.IntRange(0, 2).Draw(t, "endsWithAddr") == 0 {
			f = ""
		}
		c.Fillers = append(c.Fillers, f)
		if i < n {
			c.Addrs = append(c.Addrs, "")
		}
	}
	for i := 0; i < n; i++ {
		lastAndAtEnd := i == n-1 && c.Fillers[n] == ""
		c.Addrs[i] = genAddress(t, lastAndAtEnd)
	}
	// an address that directly follows another one (empty filler) would have its local part swallowed by the previous domain; the
	// expected result is still one REDACTED per address (unit test "edge"), but the previous domain must not end up "numeric":
	// guaranteed because every generated domain starts with a letter.
	return c
}

func enumCons(yield func(ConsCase) bool) {
	// every pair of (left neighbour, right neighbour) single bytes around one fixed address, for all 256x... restricted to non-address neighbours
	for l := 0; l < 256; l++ {
		for _, r := range []int{-1, ' ', ',', 0xff, '@', '/', '\\'} {
			lb := byte(l)
			if isAddr(lb) || lb == '/' || lb == '@' {
				continue
			}
			right := ""
			if r >= 0 {
				right = string([]byte{byte(r)})
				if r == '@' {
					right = "@ "
				}
			}
			if !yield(ConsCase{Fillers: []string{string([]byte{lb}), right}, Addrs: []string{"foo.bar@domain.fi"}}) {
				return
			}
		}
	}
	for r := 0; r < 256; r++ {
		rb := byte(r)
		if isAddr(rb) {
			continue
		}
		right := string([]byte{rb})
		if rb == '@' {
			right = "@ "
		}
		if !yield(ConsCase{Fillers: []string{"x ", right}, Addrs: []string{"a_b-c.d@e-f_g.h.i"}}) {
			return
		}
	}
	// 1..5 addresses back to back
	for n := 1; n <= 5; n++ {
		c := ConsCase{Fillers: []string{"["}}
		for i := 0; i < n; i++ {
			c.Addrs = append(c.Addrs, fmt.Sprintf("foo-%d@domain.fi", i))
			if i < n-1 {
				c.Fillers = append(c.Fillers, "")
			}
		}
		c.Fillers = append(c.Fillers, "]")
		if !yield(c) {
			return
		}
	}
}

func TestC14Constructive(t *testing.T) {
	vh.Run(t, vh.Spec[ConsCase]{
		Name: "constructive", Gen: genCons, Run: runCons, Quick: 200000, Thorough: 400000, Enum: enumCons, EnumOnlyShard0: true,
		Rule: "text = F0 A1 F1 .. An Fn with 0-4 generated addresses (local [A-Za-z0-9._-]*[A-Za-z0-9], domain starting with a letter, dotted or truncated by the end of text) and fillers built from closed atoms (separators incl. multi-byte/invalid bytes/escapes, words, lone @, x@, @x, dot-less x@y, numeric domains, /-preceded addresses); adjacency allowed; expected output = fillers + REDACTED per address, byte for byte, counter +1 iff n>0; enumerated: every non-address byte as left/right neighbour; non-trivial = >=1 address with a non-empty neighbour or adjacency",
	})
}

// ---------------------------------------------------------------------------
// B. arbitrary text: alignment + span validity + coverage

type TextCase struct {
	Text []byte `json:"text"`
}

type atInfo struct {
	must    bool // must be redacted (unambiguous address of the supported shape)
	mustNot bool // must not be redacted
}

func addrRunLeft(s []byte, p int) int { // start of the maximal run of address chars ending at p-1
	i := p
	for i > 0 && isAddr(s[i-1]) {
		i--
	}
	return i
}

func addrRunRight(s []byte, p int) int { // end (exclusive) of the maximal run of address chars starting at p+1
	i := p + 1
	for i < len(s) && isAddr(s[i]) {
		i++
	}
	return i
}

// classify every '@' of the input with an independently written matcher (maximal-run semantics).
func classify(s []byte) map[int]atInfo {
	out := map[int]atInfo{}
	for p, c := range s {
		if c != '@' {
			continue
		}
		info := atInfo{}
		if p == 0 || p == len(s)-1 || !isWord(s[p-1]) || !isWord(s[p+1]) {
			info.mustNot = true
			out[p] = info
			continue
		}
		ls := addrRunLeft(s, p)
		re := addrRunRight(s, p)
		dom := s[p+1 : re]
		dot := -1
		for i, ch := range dom {
			if ch == '.' {
				dot = i
				break
			}
		}
		shaped := false
		switch {
		case dot == -1:
			shaped = re == len(s) // truncated by the end of the text
		case p+1+dot == len(s)-1:
			shaped = true // truncated right after the dot
		default:
			shaped = dot+1 < len(dom) && isWord(dom[dot+1])
		}
		if !shaped {
			info.mustNot = true
			out[p] = info
			continue
		}
		firstDigit := dom[0] >= '0' && dom[0] <= '9'
		lastDigit := dom[len(dom)-1] >= '0' && dom[len(dom)-1] <= '9'
		if firstDigit && lastDigit {
			pure := len(dom) >= 2
			for _, ch := range dom {
				if !(ch >= '0' && ch <= '9' || ch == '.') {
					pure = false
				}
			}
			if pure {
				info.mustNot = true
			}
			// otherwise grey zone (mixed domain that starts and ends with a digit): either behaviour accepted
			out[p] = info
			continue
		}
		if ls > 0 && s[ls-1] == '/' {
			// directly preceded by '/': not redacted -- unless the run was cut by a previous redaction (decided by the alignment)
			info.mustNot = true
			out[p] = info
			continue
		}
		info.must = true
		out[p] = info
	}
	return out
}

const mark = "REDACTED"

// align checks that out == in with disjoint valid spans replaced by REDACTED, covering every must-'@' and no mustNot-'@'.
func align(in, out []byte) (bool, int) {
	cls := classify(in)
	n, m := len(in), len(out)
	// memo[i][j][afterSpan]
	type key struct{ i, j, a int }
	memo := map[key]bool{}
	spans := 0
	var rec func(i, j, a int) bool
	rec = func(i, j, a int) bool {
		if i == n && j == m {
			return true
		}
		k := key{i, j, a}
		if v, ok := memo[k]; ok {
			return v
		}
		memo[k] = false
		okRes := false
		// literal step
		if i < n && j < m && in[i] == out[j] {
			if !(in[i] == '@' && cls[i].must) {
				if rec(i+1, j+1, 0) {
					okRes = true
				}
			}
		}
		// span step
		if !okRes && j+len(mark) <= m && string(out[j:j+len(mark)]) == mark && i < n {
			// span [i,e): address chars, exactly one '@' at p, then address chars to the end of the run
			p := i
			for p < n && isAddr(in[p]) {
				p++
			}
			if p < n && in[p] == '@' && p > 0 && isWord(in[p-1]) && p+1 < n && isWord(in[p+1]) && !cls[p].mustNot || (p < n && in[p] == '@' && cls[p].mustNot && a == 1 && p > 0 && isWord(in[p-1]) && p+1 < n && isWord(in[p+1]) && slashCut(in, p)) {
				e := addrRunRight(in, p)
				// left-maximal: the span starts at the start of the run, or directly after the previous span
				leftOK := a == 1 || i == 0 || !isAddr(in[i-1])
				if a != 1 && i > 0 && in[i-1] == '/' {
					leftOK = false
				}
				if leftOK && e > p+1 {
					if rec(e, j+len(mark), 1) {
						okRes = true
						spans++
					}
				}
			}
		}
		memo[k] = okRes
		return okRes
	}
	ok := rec(0, 0, 0)
	return ok, spans
}

// slashCut: '@' at p was classified mustNot only because its maximal local run is preceded by '/', but a previous redaction may cut that run.
func slashCut(s []byte, p int) bool {
	ls := addrRunLeft(s, p)
	return ls > 0 && s[ls-1] == '/'
}

func runText(c TextCase) vh.Result {
	res := vh.Result{}
	in := string(c.Text)
	got, dc, _, f := apply(in)
	if f != nil {
		res.Violation = f
		return res
	}
	cls := classify(c.Text)
	nMust, nAt := 0, 0
	for _, ci := range cls {
		nAt++
		if ci.must {
			nMust++
		}
	}
	res.NonTrivial = nMust > 0 || nAt >= 2
	if nMust > 0 {
		res.Classes = append(res.Classes, "contains-address")
	}
	if nAt > 0 && nMust == 0 {
		res.Classes = append(res.Classes, "only-non-address-@")
	}
	if nAt == 0 {
		res.Classes = append(res.Classes, "no-@")
		if got != in {
			res.Violation = vh.Fail("redact:no-at-changed", "text without '@' changed: %q -> %q", in, got)
		}
		return res
	}
	if in == "" {
		return res
	}
	ok, _ := align(c.Text, []byte(got))
	if !ok {
		key := "redact:text-invalid-result"
		if got == in && nMust > 0 {
			key = "redact:address-remains"
		}
		res.Violation = vh.Fail(key, "no valid redaction maps input to output\n input  %q\n output %q\n '@' classes %v", in, got, describe(cls))
		return res
	}
	changed := got != in
	if changed != (dc == 1) {
		res.Violation = vh.Fail("redact:counter", "input %q changed=%v but counter delta %d", in, changed, dc)
	}
	return res
}

func describe(cls map[int]atInfo) string {
	var parts []string
	for p, c := range cls {
		parts = append(parts, fmt.Sprintf("%d:must=%v,mustNot=%v", p, c.must, c.mustNot))
	}
	return strings.Join(parts, " ")
}

func genText(t *rapid.T) TextCase {
	alphabet := []string{"a", "b", "1", "9", ".", "-", "_", "@", "@", "/", " ", ",", "é", "\\n", "\xff", "Z", "0", "に", "š", "中"}
	switch rapid.IntRange(0, 3).Draw(t, "kind") {
	case 0: // dense soup over the critical alphabet
		n := rapid.IntRange(0, 24).Draw(t, "n")
		var b strings.Builder
		for i := 0; i < n; i++ {
			b.WriteString(rapid.SampledFrom(alphabet).Draw(t, "c"))
		}
		return TextCase{[]byte(b.String())}
	case 1: // constructive text with one byte edited
		c := genCons(t)
		in, _ := c.text()
		b := []byte(in)
		if len(b) > 0 {
			i := rapid.IntRange(0, len(b)-1).Draw(t, "pos")
			b[i] = rapid.SampledFrom([]byte{'@', '.', '/', ' ', 'a', '1', '-', 0xc3}).Draw(t, "byte")
		}
		return TextCase{b}
	case 2: // constructive text with a byte removed or the text cut
		c := genCons(t)
		in, _ := c.text()
		b := []byte(in)
		if len(b) > 1 {
			i := rapid.IntRange(0, len(b)-1).Draw(t, "pos")
			if rapid.Bool().Draw(t, "cut") {
				b = b[:i]
			} else {
				b = append(b[:i:i], b[i+1:]...)
			}
		}
		return TextCase{b}
	default:
		return TextCase{rapid.SliceOfN(rapid.Byte(), 0, 40).Draw(t, "raw")}
	}
}

// enumText: all strings of length <= 5 over a 7-letter critical alphabet
func enumText(yield func(TextCase) bool) {
	alpha := []byte{'a', '1', '.', '@', '/', ' ', '-'}
	var rec func(prefix []byte, depth int) bool
	rec = func(prefix []byte, depth int) bool {
		if !yield(TextCase{append([]byte(nil), prefix...)}) {
			return false
		}
		if depth == 0 {
			return true
		}
		for _, c := range alpha {
			if !rec(append(prefix, c), depth-1) {
				return false
			}
		}
		return true
	}
	depth := 5
	if vh.Tier == "thorough" {
		depth = 7
	}
	rec(nil, depth)
}

func TestC14Text(t *testing.T) {
	vh.Run(t, vh.Spec[TextCase]{
		Name: "text", Gen: genText, Run: runText, Quick: 200000, Thorough: 400000, Enum: enumText, EnumOnlyShard0: true,
		Rule: "arbitrary texts (exhaustively all strings of length <=5 [quick] / <=7 [thorough] over {a,1,.,@,/,space,-}; rapid: dense soups over the critical alphabet, edited/cut constructive texts, raw bytes); oracle = a dynamic-programming alignment must exist mapping input to output by replacing disjoint spans with REDACTED where each span is a maximal address-character run around exactly one '@' with word characters on both sides, every unambiguous address (independent matcher, maximal-run semantics) is covered, no purely numeric / slash-preceded / unshaped '@' is covered, everything else is preserved byte for byte; counter +1 iff changed; non-trivial = text with an address or >=2 '@'",
	})
}
