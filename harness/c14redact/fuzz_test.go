package c14redact

import (
	"testing"

	"verifharness/vh"
)

// FuzzRedactText: coverage-guided exploration of the text generator with the alignment oracle (thorough tier).
func FuzzRedactText(f *testing.F) { vh.FuzzSpec(f, genText, runText) }
