// C07 — no input can crash or wedge the agent. Layer A: synchronous pipeline (shrinkable); layer B lives in the e2e engine.
package c07robust

import (
	"io"
	"encoding/json"
	"compress/gzip"
	"bytes"
	"fmt"
	"os"
	"strings"
	"testing"

	"github.com/relex/gotils/logger"
	"github.com/relex/slog-agent/base"
	"github.com/relex/slog-agent/defs"
	"github.com/relex/slog-agent/run"
	"pgregory.net/rapid"

	"verifharness/tprog"
	"verifharness/vh"
)

var scratch string

func init() {
	vh.QuietLogs(logger.FatalLevel)
	scratch, _ = os.MkdirTemp("", "verif-c07-")
	os.Setenv("VERIF_SCRATCH", scratch)
}

func TestMain(m *testing.M) {
	code := m.Run()
	os.RemoveAll(scratch)
	os.Exit(code)
}

type Case struct {
	Sample bool            `json:"sample"`
	Spec   *tprog.FileSpec `json:"spec,omitempty"`
	MaxMsg int             `json:"maxMsg"` // defs.InputLogMaxMessageBytes (production 1 MiB)
	Inputs [][]vh.Seg      `json:"inputs"` // hostile inputs, each presented as one record
	NoPack bool            `json:"noPack,omitempty"` // skip the chunk makers (fuzz target: they cost 3 MB of buffers per pipeline)
	PoolAll bool           `json:"poolAll,omitempty"` // pooling threshold (a defs variable, 1 KiB) lowered to 32 bytes: the backing buffer of every
	// record is recycled at its release and re-used by the next input of the same size class; the case ends with binary
	// garbage of exactly the sentinels' lengths, and the metrics must still be exportable afterwards
}

type loaded struct {
	conf   run.Config
	schema base.LogSchema
}

var confCache = map[string]loaded{}

func load(c Case) loaded {
	var text string
	if c.Sample {
		text = vh.SampleConfigText(scratch+"/buf", true)
	} else {
		s := *c.Spec
		s.BufferRoot = scratch + "/buf"
		text = s.YAML()
	}
	if l, ok := confCache[text]; ok {
		return l
	}
	conf, schema, err := vh.LoadConfigText(text)
	if err != nil {
		panic("harness generated a configuration that is rejected: " + err.Error() + "\n" + text)
	}
	if len(confCache) > 50 {
		confCache = map[string]loaded{}
	}
	confCache[text] = loaded{conf, schema}
	return confCache[text]
}

var sentinels = [][]byte{
	[]byte("<167>1 2022-08-15T03:48:20.154+03:00 basic-1 appServ/foo.com 51629 cron.log:123e4567-e89b-12d3-a456-426614174000 - [Initializer] - Creating data engines uid=1000"),
	[]byte("<166>1 2022-08-15T03:48:33.760+03:00 basic-1 appServ/foo.com 51629 access.log - GET /cronlog ip=1.2.3.4 user bob@example.com"),
	// escape sequences: the unescape step depends on a per-record flag that lives in a recycled record object
	[]byte(`<163>1 2022-08-15T03:48:34.001+03:00 basic-1 appServ/foo.com 51629 main.log - Request failed:\n\tcode=500 reason=\"x\" path=C:\\tmp`),
}

func counters(sp *vh.SyncPipeline) (float64, float64) {
	sp.InputCount.UpdateMetrics()
	m := vh.Gather(sp.MF)
	return m.Sum("sp_input_passed_records_total") + m.Sum("sp_input_dropped_records_total"),
		m.Sum("sp_input_passed_record_bytes_total") + m.Sum("sp_input_dropped_record_bytes_total")
}

func runCase(c Case) vh.Result {
	res := vh.Result{}
	defs.InputLogMaxMessageBytes = c.MaxMsg
	defs.InputLogMaxRecordBytes = c.MaxMsg + 256
	defs.ListenerLineBufferSize = defs.InputLogMaxRecordBytes * 4
	defs.InputLogMinRecordBytesToPool = 1024
	if c.PoolAll {
		defs.InputLogMinRecordBytesToPool = 32
		res.Classes = append(res.Classes, "all-records-pooled")
	}
	ld := load(c)
	// reference outputs of the sentinels on a fresh pipeline
	fresh, err := vh.NewSyncPipelineOpt(ld.conf, ld.schema, "tag", vh.SyncOptions{NoChunks: true})
	if err != nil {
		panic(err)
	}
	var wantSent []vh.ProcResult
	for _, s := range sentinels {
		wantSent = append(wantSent, fresh.Process(s))
	}
	sp, err := vh.NewSyncPipelineOpt(ld.conf, ld.schema, "tag", vh.SyncOptions{NoChunks: c.NoPack})
	if err != nil {
		panic(err)
	}
	reaches, oversize := false, false
	passedRecords := 0
	// every bad input is presented twice (with the sentinels in between): a client that sends something bad usually
	// sends it again, and state remembered about the first occurrence must not make the second one worse
	twice := make([][]vh.Seg, 0, 2*len(c.Inputs))
	for _, segs := range c.Inputs {
		twice = append(twice, segs, segs)
	}
	for i, segs := range twice {
		in := vh.Expand(segs)
		if len(in) > 4*(c.MaxMsg+256) {
			in = in[:4*(c.MaxMsg+256)] // the listener never hands over more than its line buffer
		}
		if len(in) >= 32 && in[0] == '<' {
			reaches = true
		}
		if len(in) > c.MaxMsg+256 {
			oversize = true
		}
		n0, b0 := counters(sp)
		var r vh.ProcResult
		if pf := vh.Protect(func() { r = sp.Process(in) }); pf != nil {
			pf.Msg = fmt.Sprintf("input %d (%d bytes, starts %.80q) crashed the pipeline\n%s", i, len(in), in, pf.Msg)
			res.Violation = pf
			return res
		}
		n1, b1 := counters(sp)
		if n1-n0 != 1 || b1-b0 != float64(len(in)) {
			res.Violation = vh.Fail("robust:not-counted", "input %d (%d bytes): input counters grew by %v records / %v bytes", i, len(in), n1-n0, b1-b0)
			return res
		}
		if r.Passed {
			passedRecords++
		}
		// a well-formed record right after the bad one must be processed exactly as on a fresh pipeline
		for k, s := range sentinels {
			var rs vh.ProcResult
			if pf := vh.Protect(func() { rs = sp.Process(append([]byte(nil), s...)) }); pf != nil {
				pf.Msg = fmt.Sprintf("sentinel after input %d crashed\n%s", i, pf.Msg)
				res.Violation = pf
				return res
			}
			if rs.Parsed != wantSent[k].Parsed || rs.Passed != wantSent[k].Passed || len(rs.Streams) != len(wantSent[k].Streams) {
				res.Violation = vh.Fail("robust:sentinel-corrupted", "sentinel %d after input %d (%.80q): parsed/passed %v/%v, fresh %v/%v", k, i, in, rs.Parsed, rs.Passed, wantSent[k].Parsed, wantSent[k].Passed)
				return res
			}
			if rs.Passed {
				passedRecords++
			}
			for o := range rs.Streams {
				if !bytes.Equal(rs.Streams[o], wantSent[k].Streams[o]) {
					res.Violation = vh.Fail("robust:sentinel-corrupted", "sentinel %d after input %d (%.80q): output %d differs from a fresh pipeline\n got  %.200q\n want %.200q", k, i, in, o, rs.Streams[o], wantSent[k].Streams[o])
					return res
				}
			}
		}
	}
	if c.PoolAll {
		// binary garbage of exactly the sentinels' lengths takes over the buffers the sentinels have just given back
		for _, s := range sentinels {
			g := bytes.Repeat([]byte{0xff, 0xfe, '<', 0x00}, len(s)/4+1)[:len(s)]
			if pf := vh.Protect(func() { sp.Process(g) }); pf != nil {
				pf.Msg = fmt.Sprintf("garbage of %d bytes crashed the pipeline\n%s", len(g), pf.Msg)
				res.Violation = pf
				return res
			}
		}
	}
	// "rejected and counted": whatever was thrown at it, the pipeline's metrics must still be exportable (a label value
	// that the exporter refuses makes the /metrics endpoint answer 500 for everything)
	sp.InputCount.UpdateMetrics()
	if _, gerr := vh.GatherErr(sp.MF); gerr != "" {
		res.Violation = vh.Fail("robust:metrics-export-fails", "after the inputs the pipeline's metric gatherer returns an error: %.600s", gerr)
		return res
	}
	if pf := vh.Protect(func() { sp.Flush() }); pf != nil {
		res.Violation = pf
		return res
	}
	// the records are packed into chunks together: a bad record must not make the chunk that also carries its well-formed
	// neighbours undecodable. Every chunk decodes (independent decoders) and the chunks of an output hold every passed record.
	if !c.NoPack {
		for o, chunks := range sp.Chunks {
			events := 0
			for _, ch := range chunks {
				n, derr := countChunkEvents(ch.ID, ch.Data)
				if derr != nil {
					res.Violation = vh.Fail("robust:chunk-undecodable", "output %d (%s): chunk %s (%d bytes), which packs the hostile input together with well-formed records, does not decode: %v", o, sp.OutputNames[o], ch.ID, len(ch.Data), derr)
					return res
				}
				events += n
			}
			if events != passedRecords {
				res.Violation = vh.Fail("robust:chunk-record-count", "output %d (%s): %d records passed the pipeline, the chunks hold %d", o, sp.OutputNames[o], passedRecords, events)
				return res
			}
		}
	}
	res.NonTrivial = reaches || oversize
	if reaches {
		res.Classes = append(res.Classes, "reaches-parser(>=32,starts-with-<)")
	}
	if oversize {
		res.Classes = append(res.Classes, "longer-than-MaxRecordBytes")
	}
	if c.MaxMsg == 1<<20 {
		res.Classes = append(res.Classes, "production-limits")
	}
	if c.Sample {
		res.Classes = append(res.Classes, "sample-config")
	} else {
		res.Classes = append(res.Classes, "generated-config")
	}
	return res
}

func gen(t *rapid.T) Case {
	var c Case
	c.Sample = rapid.IntRange(0, 2).Draw(t, "sample") > 0
	if !c.Sample {
		s := tprog.GenFileSpec(t, false) // no sampled drops: the sentinel comparison needs stateless programs
		c.Spec = &s
	}
	c.MaxMsg = rapid.SampledFrom([]int{300, 2000, 2000, 70000}).Draw(t, "maxMsg")
	if rapid.IntRange(0, 99).Draw(t, "prod") == 57 || (vh.Tier == "thorough" && rapid.IntRange(0, 9).Draw(t, "prod2") == 7) {
		c.MaxMsg = 1 << 20
	}
	c.PoolAll = rapid.IntRange(0, 2).Draw(t, "poolAll") == 0
	n := rapid.IntRange(1, 4).Draw(t, "ninputs")
	for i := 0; i < n; i++ {
		c.Inputs = append(c.Inputs, vh.GenHostile(t, c.MaxMsg))
	}
	return c
}

func enumKnown(yield func(Case) bool) {
	// the hostile constants that crashed the pinned tree, under scaled and production limits
	mk := func(maxMsg int, ins ...string) Case {
		c := Case{Sample: true, MaxMsg: maxMsg}
		for _, s := range ins {
			c.Inputs = append(c.Inputs, []vh.Seg{{Raw: []byte(s), Rep: 1}})
		}
		return c
	}
	pad := strings.Repeat("x", 40)
	for _, m := range []int{300, 1 << 20} {
		cases := []Case{
			mk(m, "< "+pad, "<"+pad, "<> "+pad, "<1 "+pad),
			mk(m, "<13>1 - host appServ 1 main.log - "+pad, "<13>1 2019 host appServ 1 main.log - "+pad),
			mk(m, "<13>1 2020-01-01T00:00:00Z ho\xfest appServ 1 access.log - "+pad, "<13>1 2020-01-01T00:00:00Z h app\xff 1 src\xfe - "+pad),
			mk(m, "<13>1 2020-01-01T00:00:00Z h appServ 1 access.log - [ ] - "+pad, "<13>1 2020-01-01T00:00:00Z h appServ 1 access.log - [\t] - "),
		}
		for _, c := range cases {
			if !yield(c) {
				return
			}
		}
		// 3x MaxRecordBytes hostname
		big := Case{Sample: true, MaxMsg: m, Inputs: [][]vh.Seg{{{Raw: []byte("<13>1 2020-01-01T00:00:00Z "), Rep: 1}, {Raw: []byte("h"), Rep: 3 * (m + 256)}, {Raw: []byte(" app 1 s - m"), Rep: 1}}}}
		if !yield(big) {
			return
		}
	}
}

func TestC07Pipeline(t *testing.T) {
	vh.Run(t, vh.Spec[Case]{
		Name: "pipeline", Gen: gen, Run: runCase, Quick: 6000, Thorough: 60000, Enum: enumKnown, EnumOnlyShard0: true,
		Rule: "hostile inputs (raw bytes; valid headers with each token replaced by empty/NIL/'<'/invalid UTF-8/embedded newline/short timestamps; mutated PRI and version; truncated lines; one token or the whole record padded to 0,1,31-33,1023-1025,65535/6,MaxMessage±1,MaxRecord±1,2x and 4x MaxRecord bytes with ASCII, multi-byte and invalid bytes) presented, each twice, as records to the synchronous parse->extract->metric keys->transform->serialize->pack path under the sample configuration and generated configurations, at scaled (300/2000/70000 B) and production (1 MiB) limits; oracle = no panic or memory fault, input counters grow by exactly one record and len(input) bytes, and three well-formed sentinel records (one with escape sequences) processed right after each bad input give byte-identical output to a fresh pipeline; non-trivial = input >=32 bytes starting with '<' (reaches the parser) or longer than MaxRecordBytes",
	})
}

// FuzzPipelineBytes is the coverage-guided variant (thorough tier only): raw bytes as one record under the sample configuration.
func FuzzPipelineBytes(f *testing.F) {
	for _, s := range sentinels {
		f.Add(s)
	}
	for _, s := range []string{"< " + strings.Repeat("x", 40), "<13>1 - h a 1 s - " + strings.Repeat("y", 30), "<13>1 2020-01-01T00:00:00Z h appServ 1 access.log - [ ] - z", "<13>1 2020-01-01T00:00:00Z ho\xfest appServ 1 main.log:ab - POST x params=" + strings.Repeat("é", 100)} {
		f.Add([]byte(s))
	}
	files, _ := os.ReadDir(vh.RepoDir() + "/testdata/development")
	for _, e := range files {
		if strings.HasSuffix(e.Name(), "-input.log") {
			b, _ := os.ReadFile(vh.RepoDir() + "/testdata/development/" + e.Name())
			for _, l := range bytes.Split(b, []byte("\n")) {
				if len(l) > 0 {
					f.Add(l)
				}
			}
		}
	}
	f.Fuzz(func(t *testing.T, in []byte) {
		r := runCase(Case{Sample: true, MaxMsg: 2000, NoPack: true, Inputs: [][]vh.Seg{{{Raw: in, Rep: 1}}}})
		if r.Violation != nil && !vh.IsKnown(r.Violation.Key) {
			t.Fatalf("VIOLATION key=%s\n%s", r.Violation.Key, r.Violation.Msg)
		}
	})
}

// countChunkEvents decodes a chunk with the harness's own decoders (Forward message, or gzip + JSON array for Datadog).
func countChunkEvents(id string, data []byte) (int, error) {
	if strings.HasSuffix(id, ".dd") {
		zr, err := gzip.NewReader(bytes.NewReader(data))
		if err != nil {
			return 0, err
		}
		raw, err := io.ReadAll(zr)
		if err != nil {
			return 0, err
		}
		var arr []map[string]any
		if err := json.Unmarshal(raw, &arr); err != nil {
			return 0, err
		}
		return len(arr), nil
	}
	msg, err := vh.DecodeForwardMessage(data)
	if err != nil {
		return 0, err
	}
	return len(msg.Events), nil
}
