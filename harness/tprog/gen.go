package tprog

import (
	"fmt"
	"strings"

	"pgregory.net/rapid"
)

// Schema fields used by generated programs.
var Fields = []string{"f0", "f1", "f2", "f3", "f4", "log"}

var genField = rapid.SampledFrom(Fields)

// config strings: printable ASCII (incl. pattern specials) and one two-byte rune; never empty unless stated
var cfgRunes = []rune("abcxyz019 -_.:,;=/[]*\\$#@é\"'")

func genCfgString(minLen, maxLen int) *rapid.Generator[string] {
	return rapid.Custom(func(t *rapid.T) string {
		s := rapid.StringOfN(rapid.RuneFrom(cfgRunes), minLen, maxLen, -1).Draw(t, "cfg")
		return s
	})
}

// literal usable inside a template (no '$')
func genTemplateLit() *rapid.Generator[string] {
	return rapid.Map(genCfgString(1, 6), func(s string) string {
		s = strings.ReplaceAll(s, "$", "S")
		return s
	})
}

func genTemplate(t *rapid.T, exclude map[string]bool) []TPart {
	n := rapid.IntRange(1, 4).Draw(t, "nparts")
	var parts []TPart
	prevVarNoBrace := false
	for i := 0; i < n; i++ {
		if rapid.Bool().Draw(t, "isVar") {
			var v string
			for tries := 0; ; tries++ {
				v = genField.Draw(t, "var")
				if !exclude[v] || tries > 10 {
					break
				}
			}
			if exclude[v] {
				continue
			}
			p := TPart{Var: v}
			switch rapid.IntRange(0, 3).Draw(t, "form") {
			case 0:
				// $var: must not be followed directly by a word character
			case 1:
				p.Braces = true
			default:
				p.Braces = true
				if rapid.Bool().Draw(t, "hasStart") {
					p.HasStart, p.Start = true, rapid.IntRange(-6, 6).Draw(t, "start")
				}
				if rapid.Bool().Draw(t, "hasEnd") {
					p.HasEnd, p.End = true, rapid.IntRange(-6, 6).Draw(t, "end")
				}
				if !p.HasStart && !p.HasEnd {
					p.HasStart, p.Start = true, 1
				}
			}
			parts = append(parts, p)
			prevVarNoBrace = !p.Braces
		} else {
			lit := genTemplateLit().Draw(t, "lit")
			if prevVarNoBrace && len(lit) > 0 && isWordByte(lit[0]) {
				lit = "-" + lit
			}
			if len(parts) > 0 && parts[len(parts)-1].Var == "" {
				parts[len(parts)-1].Lit += lit
			} else {
				parts = append(parts, TPart{Lit: lit})
			}
			prevVarNoBrace = false
		}
	}
	if len(parts) == 0 {
		parts = []TPart{{Lit: "lit"}}
	}
	return parts
}

func isWordByte(c byte) bool {
	return c == '_' || c >= '0' && c <= '9' || c >= 'a' && c <= 'z' || c >= 'A' && c <= 'Z'
}

var globs = []string{"a*", "*z", "a*z", "*ab*", "{ab,xy}*", "**=1", "*"} // "?" is left out: its treatment of multi-byte characters by the third-party glob library has no obvious translation
var regexes = []string{"^a", "z$", "^[a-c]+$", "[0-9]{2,}", "^(ab|xy)", "a.c", "^$"}

// genRegex: a pattern from the fixed pool, or built from a small grammar of Go's syntax ("uses Go's regular expression"
// is all the documentation says): optional anchors around literal characters (some of them escaped metacharacters), '.',
// bracket expressions, alternations and quantifiers. Patterns that consist of literal characters only - unanchored,
// anchored on one side, anchored on both - are a family of their own: they are where a matcher is tempted to avoid the
// regular expression engine.
func genRegex(t *rapid.T) string {
	switch rapid.IntRange(0, 3).Draw(t, "reKind") {
	case 0:
		return rapid.SampledFrom(regexes).Draw(t, "regex")
	case 1:
		lit := rapid.SampledFrom([]string{"a", "ab", "error", "x", "abc", `a\.b`, `\[a\]`, "é", "a b", "0"}).Draw(t, "reLit")
		pre := rapid.SampledFrom([]string{"", "^", "^", `\A`}).Draw(t, "rePre")
		post := rapid.SampledFrom([]string{"", "$", "$", `\z`}).Draw(t, "rePost")
		return pre + lit + post
	}
	var b strings.Builder
	if rapid.Bool().Draw(t, "reAnchorL") {
		b.WriteString("^")
	}
	n := rapid.IntRange(1, 4).Draw(t, "reAtoms")
	for i := 0; i < n; i++ {
		atom := rapid.SampledFrom([]string{"a", "b", "ab", "x", "0", ".", `\.`, "[a-c]", "[0-9]", "[^a]", "(ab|xy)", "(a|)", `\d`, `\s`, "é"}).Draw(t, "reAtom")
		b.WriteString(atom)
		b.WriteString(rapid.SampledFrom([]string{"", "", "", "+", "*", "?", "{2}", "{1,2}"}).Draw(t, "reQuant"))
	}
	if rapid.Bool().Draw(t, "reAnchorR") {
		b.WriteString("$")
	}
	return b.String()
}

func genCond(t *rapid.T) Cond {
	c := Cond{Field: genField.Draw(t, "cfield")}
	c.Op = rapid.SampledFrom([]string{"str", "str-eq", "str-not", "str-start", "str-end", "str-contain", "str-any", "len-gt", "len-lt", "glob", "regex"}).Draw(t, "op")
	switch c.Op {
	case "str-any":
	case "len-gt", "len-lt":
		c.Arg = fmt.Sprint(rapid.IntRange(0, 12).Draw(t, "n"))
	case "glob":
		c.Arg = rapid.SampledFrom(globs).Draw(t, "glob")
	case "regex":
		c.Arg = genRegex(t)
	default:
		c.Arg = genCfgString(1, 5).Draw(t, "arg")
	}
	return c
}

func genMatch(t *rapid.T) []Cond {
	n := rapid.IntRange(1, 3).Draw(t, "nconds")
	used := map[string]bool{}
	var out []Cond
	for i := 0; i < n; i++ {
		c := genCond(t)
		if used[c.Field] { // YAML map: one condition per field
			continue
		}
		used[c.Field] = true
		out = append(out, c)
	}
	return out
}

var classes = []string{"[a-z]", "[a-z0-9-]", "[0-9a-f-]", "[^,;]", "[A-Za-z_.]", "[^ ]", "[xyz]"}

// genClass: a bracket expression from the fixed pool or built from the documented grammar - optional negation, a
// literal hyphen first and/or last, single characters and ranges in between (a hyphen is a range operator only between
// two characters).
func genClass(t *rapid.T) string {
	if rapid.Bool().Draw(t, "poolClass") {
		return rapid.SampledFrom(classes).Draw(t, "class")
	}
	var b strings.Builder
	b.WriteByte('[')
	if rapid.Bool().Draw(t, "neg") {
		b.WriteByte('^')
	}
	lead := rapid.Bool().Draw(t, "leadHyphen")
	if lead {
		b.WriteByte('-')
	}
	n := rapid.IntRange(1, 4).Draw(t, "nitems")
	for i := 0; i < n; i++ {
		if rapid.IntRange(0, 2).Draw(t, "range") == 0 {
			b.WriteString(rapid.SampledFrom([]string{"a-z", "A-Z", "0-9", "a-f", "0-7", "x-z", "_-a"}).Draw(t, "rng"))
		} else {
			b.WriteString(rapid.SampledFrom([]string{"a", "b", "x", "z", "0", "9", "_", ".", ",", ";", "/", ":", " ", "`", "@"}).Draw(t, "chr"))
		}
	}
	if rapid.Bool().Draw(t, "trailHyphen") {
		b.WriteByte('-')
	}
	b.WriteByte(']')
	return b.String()
}

type genState struct {
	labelSeq int
	plainLabels []string // labels of unconditional (100%) drop steps so far
	allowSampled bool
}

// GenProgram generates a list of steps nested up to the given depth.
func GenProgram(t *rapid.T, depth int, allowSampledDrop bool) []Step {
	st := &genState{allowSampled: allowSampledDrop}
	return genSteps(t, st, depth, rapid.IntRange(1, 4).Draw(t, "nsteps"))
}

func genSteps(t *rapid.T, st *genState, depth int, n int) []Step {
	var out []Step
	for i := 0; i < n; i++ {
		out = append(out, genStep(t, st, depth))
	}
	return out
}

func genStep(t *rapid.T, st *genState, depth int) Step {
	types := []string{"addFields", "addFields", "delFields", "mapValue", "drop", "extractHead", "extractHead", "extractTail", "extractTail", "truncate", "truncate", "unescape", "replace", "extract"}
	if depth > 0 {
		types = append(types, "if", "if", "switch", "switch", "block")
	}
	s := Step{T: rapid.SampledFrom(types).Draw(t, "type")}
	switch s.T {
	case "addFields":
		n := rapid.IntRange(1, 2).Draw(t, "nadd")
		dests := map[string]bool{}
		for len(dests) < n {
			dests[genField.Draw(t, "dest")] = true
		}
		for _, f := range Fields {
			if dests[f] {
				excl := map[string]bool{}
				if n > 1 {
					excl = dests // with several fields in one step no template may read a destination of the same step (Go map order)
				}
				s.Add = append(s.Add, AddField{Dest: f, Template: genTemplate(t, excl)})
			}
		}
	case "delFields":
		n := rapid.IntRange(1, 3).Draw(t, "ndel")
		seen := map[string]bool{}
		for i := 0; i < n; i++ {
			k := genField.Draw(t, "key")
			if !seen[k] {
				seen[k] = true
				s.Keys = append(s.Keys, k)
			}
		}
	case "mapValue":
		s.Key = genField.Draw(t, "key")
		s.Mapping = map[string]string{}
		for i := rapid.IntRange(1, 3).Draw(t, "nmap"); i > 0; i-- {
			s.Mapping[genCfgString(1, 4).Draw(t, "mk")] = genCfgString(0, 6).Draw(t, "mv")
		}
		s.Default = genCfgString(0, 5).Draw(t, "def")
	case "if":
		s.Match = genMatch(t)
		s.Then = genSteps(t, st, depth-1, rapid.IntRange(1, 3).Draw(t, "nthen"))
	case "switch":
		for i := rapid.IntRange(1, 3).Draw(t, "ncases"); i > 0; i-- {
			s.Cases = append(s.Cases, Case{Match: genMatch(t), Then: genSteps(t, st, depth-1, rapid.IntRange(1, 2).Draw(t, "nthen"))})
		}
	case "block":
		s.Steps = genSteps(t, st, depth-1, rapid.IntRange(1, 3).Draw(t, "nblock"))
	case "drop":
		s.Match = genMatch(t)
		s.Percentage = 100
		if st.allowSampled && rapid.Bool().Draw(t, "sampled") {
			s.Percentage = rapid.OneOf(rapid.IntRange(1, 99), rapid.SampledFrom([]int{1, 33, 50, 99})).Draw(t, "pct")
		}
		// several steps may report to one metric label (e.g. the same label in two switch branches); sampled drops keep a
		// label of their own because the reference learns their decisions from the label's counter
		if s.Percentage == 100 && len(st.plainLabels) > 0 && rapid.IntRange(0, 2).Draw(t, "sharedLabel") == 0 {
			s.Label = rapid.SampledFrom(st.plainLabels).Draw(t, "label")
		} else {
			st.labelSeq++
			s.Label = fmt.Sprintf("drop%d", st.labelSeq)
			if s.Percentage == 100 {
				st.plainLabels = append(st.plainLabels, s.Label)
			}
		}
	case "extractHead", "extractTail":
		s.Key = genField.Draw(t, "key")
		for {
			s.DestKey = genField.Draw(t, "destKey")
			if s.DestKey != s.Key {
				break
			}
		}
		s.MaxLen = rapid.IntRange(1, 30).Draw(t, "maxLen")
		if rapid.Bool().Draw(t, "star") {
			s.Wild = "*"
		} else {
			s.Wild = genClass(t)
		}
		s.Left = genCfgString(0, 3).Draw(t, "left")
		s.Right = genCfgString(0, 3).Draw(t, "right")
		// documented requirement: "at least one of rightBoundary or validChars should be present" (mirrored for the tail)
		if s.Wild == "*" {
			if s.T == "extractHead" && s.Right == "" {
				s.Right = genCfgString(1, 3).Draw(t, "right1")
			}
			if s.T == "extractTail" && s.Left == "" {
				s.Left = genCfgString(1, 3).Draw(t, "left1")
			}
		}
	case "truncate":
		s.Key = genField.Draw(t, "key")
		s.MaxLen = rapid.IntRange(1, 24).Draw(t, "maxLen")
		s.Suffix = genCfgString(1, 4).Draw(t, "suffix")
	case "unescape":
		s.Key = genField.Draw(t, "key")
	case "replace":
		s.Key = genField.Draw(t, "key")
		lit := genCfgString(1, 3).Draw(t, "replLit")
		s.Pattern = rapid.SampledFrom([]string{quoteMeta(lit), "^" + quoteMeta(lit), "[0-9]+", "(a)(b)?"}).Draw(t, "pattern")
		s.Replacement = strings.ReplaceAll(genCfgString(0, 4).Draw(t, "repl"), "$", "")
		if s.Pattern == "(a)(b)?" {
			s.Replacement = "<$1|$2>"
		}
	case "extract":
		s.Key = genField.Draw(t, "key")
		a, b := genField.Draw(t, "cap1"), genField.Draw(t, "cap2")
		if a == b {
			s.Pattern = fmt.Sprintf(`^(?P<%s>[a-z]+)[-=]`, a)
		} else {
			s.Pattern = rapid.SampledFrom([]string{
				fmt.Sprintf(`^(?P<%s>[a-z]+)[-=](?P<%s>[0-9]*)`, a, b),
				fmt.Sprintf(`(?P<%s>[0-9]+)(?:x(?P<%s>[a-z]+))?$`, a, b),
			}).Draw(t, "pattern")
		}
	}
	return s
}

func quoteMeta(s string) string {
	var b strings.Builder
	for _, c := range s {
		if strings.ContainsRune(`\.+*?()|[]{}^$`, c) {
			b.WriteByte('\\')
		}
		b.WriteRune(c)
	}
	return b.String()
}

// Literals collects strings and lengths that occur in a program, used to bias record values toward its boundaries.
func Literals(steps []Step) (lits []string, lens []int) {
	var walk func([]Step)
	conds := func(cs []Cond) {
		for _, c := range cs {
			switch c.Op {
			case "len-gt", "len-lt":
				var n int
				fmt.Sscan(c.Arg, &n)
				lens = append(lens, n)
			case "glob", "regex":
				lits = append(lits, strings.Trim(strings.NewReplacer(`\A`, "", `\z`, "", `\.`, ".", `\[`, "[", `\]`, "]").Replace(c.Arg), "^$*?{}"))
			case "str-any":
			default:
				lits = append(lits, c.Arg)
			}
		}
	}
	walk = func(l []Step) {
		for _, s := range l {
			conds(s.Match)
			for _, c := range s.Cases {
				conds(c.Match)
				walk(c.Then)
			}
			walk(s.Then)
			walk(s.Steps)
			for k := range s.Mapping {
				lits = append(lits, k)
			}
			if s.Left != "" {
				lits = append(lits, s.Left)
			}
			if s.Right != "" {
				lits = append(lits, s.Right)
			}
			if s.T == "truncate" {
				lens = append(lens, s.MaxLen, s.MaxLen+len(s.Suffix))
			}
			if s.T == "extractHead" || s.T == "extractTail" {
				lens = append(lens, s.MaxLen)
			}
		}
	}
	walk(steps)
	return
}

// GenValue generates a field value biased toward the literals and lengths of the program.
func GenValue(t *rapid.T, lits []string, lens []int) []byte {
	pieces := []string{"a", "ab", "xyz", "0", "19", "é", "€", "😀", "\\n", "\\t", "\\\\", "\\", " ", "\t", "\x01", "\xff", "\xc3", "-", "=", ":", ",", ";", "/", "[", "]", "*", "$", "user@host.com", "z"}
	kind := rapid.IntRange(0, 9).Draw(t, "vkind")
	if kind == 0 {
		return nil
	}
	var b []byte
	n := rapid.IntRange(1, 6).Draw(t, "npieces")
	for i := 0; i < n; i++ {
		if len(lits) > 0 && rapid.IntRange(0, 2).Draw(t, "useLit") > 0 {
			b = append(b, rapid.SampledFrom(lits).Draw(t, "lit")...)
		} else {
			b = append(b, rapid.SampledFrom(pieces).Draw(t, "piece")...)
		}
	}
	if len(lens) > 0 && kind >= 6 {
		// pad / cut to land within ±2 of one of the program's lengths, with a multi-byte rune possibly across the cut
		target := rapid.SampledFrom(lens).Draw(t, "len") + rapid.IntRange(-2, 3).Draw(t, "dlen")
		unit := rapid.SampledFrom([]string{"x", "é", "€", "ab"}).Draw(t, "pad")
		for len(b) < target+4 {
			b = append(b, unit...)
		}
		if rapid.Bool().Draw(t, "cutExact") && target >= 0 && target <= len(b) {
			b = b[:target]
		}
	}
	return b
}
