package tprog

import (
	"fmt"
	"strings"

	"pgregory.net/rapid"
)

// SyslogFields are the fields the syslog input requires.
var SyslogFields = []string{"facility", "level", "time", "host", "app", "pid", "source", "extradata", "log"}

// RewriteSpec is a serialization rewrite chain for one field.
type RewriteSpec struct {
	Field  string   `json:"field"`
	Inline []string `json:"inline,omitempty"`
	Last   string   `json:"last"` // copy | unescape
}

type OutputSpec struct {
	Name     string        `json:"name"`
	Kind     string        `json:"kind"` // fluentdForward | datadog
	Env      []string      `json:"env,omitempty"`
	Hidden   []string      `json:"hidden,omitempty"`
	Rewrites []RewriteSpec `json:"rewrites,omitempty"`
	Mode     string        `json:"mode,omitempty"`
	Upstream string        `json:"upstream,omitempty"` // host:port of the (fake) Forward server
	MaxBuf   string        `json:"maxBuf,omitempty"`
}

// FileSpec is a whole configuration file as data.
type FileSpec struct {
	MaxFields    int          `json:"maxFields"`
	LevelMapping []string     `json:"levelMapping"`
	Extractions  []Step       `json:"extractions"`
	OrchType     string       `json:"orchType"` // byKeySet | singleton
	Keys         []string     `json:"keys"`
	Tag          string       `json:"tag"`
	MetricKeys   []string     `json:"metricKeys"`
	Prog         []Step       `json:"prog"`
	Outputs      []OutputSpec `json:"outputs"`
	BufferRoot   string       `json:"bufferRoot"` // directory under which each output gets <root>/<name>
	Address      string       `json:"address"`
}

// AllFields is the schema of generated files.
func AllFields() []string {
	out := append([]string{}, SyslogFields...)
	for _, f := range Fields {
		if f != "log" {
			out = append(out, f)
		}
	}
	return out
}

// YAML renders the file.
func (f FileSpec) YAML() string {
	var b strings.Builder
	b.WriteString("anchors: []\n")
	b.WriteString("schema:\n  fields: [" + strings.Join(AllFields(), ", ") + "]\n")
	b.WriteString(fmt.Sprintf("  maxFields: %d\n", f.MaxFields))
	addr := f.Address
	if addr == "" {
		addr = "localhost:0"
	}
	b.WriteString("inputs:\n  - type: syslog\n    address: " + addr + "\n    levelMapping: [" + strings.Join(f.LevelMapping, ", ") + "]\n    extractions:\n")
	b.WriteString(YAML(f.Extractions, "      "))
	b.WriteString("orchestration:\n  type: " + f.OrchType + "\n")
	if f.OrchType == "byKeySet" {
		b.WriteString("  keys: [" + strings.Join(f.Keys, ", ") + "]\n")
	}
	b.WriteString("  tag: " + q(f.Tag) + "\n")
	b.WriteString("metricKeys: [" + strings.Join(f.MetricKeys, ", ") + "]\n")
	b.WriteString("transformations:\n")
	b.WriteString(YAML(f.Prog, "  "))
	b.WriteString("outputBufferPairs:\n")
	for _, o := range f.Outputs {
		maxBuf := o.MaxBuf
		if maxBuf == "" {
			maxBuf = "100MB"
		}
		b.WriteString("  - name: " + o.Name + "\n    buffer:\n      type: hybridBuffer\n      rootPath: " + q(f.BufferRoot+"/"+o.Name) + "\n      maxBufSize: " + maxBuf + "\n    output:\n")
		if o.Kind == "datadog" {
			b.WriteString("      type: datadog\n      serialization:\n        hiddenFields: [" + strings.Join(o.Hidden, ", ") + "]\n      upstream:\n        address: https://localhost:1/api/v2/logs\n        httpTimeout: 30s\n")
			continue
		}
		b.WriteString("      type: fluentdForward\n      serialization:\n        environmentFields: [" + strings.Join(o.Env, ", ") + "]\n        hiddenFields: [" + strings.Join(o.Hidden, ", ") + "]\n")
		if len(o.Rewrites) > 0 {
			b.WriteString("        rewriteFields:\n")
			for _, rw := range o.Rewrites {
				b.WriteString("          " + rw.Field + ":\n")
				for _, in := range rw.Inline {
					b.WriteString("            - type: inline\n              field: " + in + "\n")
				}
				b.WriteString("            - type: " + rw.Last + "\n")
			}
		}
		up := o.Upstream
		if up == "" {
			up = "localhost:24224"
		}
		b.WriteString("      messageMode: " + o.Mode + "\n      upstream:\n        address: " + up + "\n        tls: false\n        secret: \"\"\n        maxDuration: 30m\n")
	}
	return b.String()
}

// TagTemplateOver renders a tag template string over the given key names.
func genTagTemplate(t *rapid.T, keys []string) string {
	if len(keys) == 0 {
		return rapid.SampledFrom([]string{"static.tag", "t"}).Draw(t, "tag")
	}
	k := rapid.SampledFrom(keys).Draw(t, "tagKey")
	return rapid.SampledFrom([]string{"t.$" + k, "${" + k + "}", "p-${" + k + "[:3]}-s", "static"}).Draw(t, "tagTmpl")
}

func pickSubset(t *rapid.T, label string, from []string, minN, maxN int) []string {
	n := rapid.IntRange(minN, min(maxN, len(from))).Draw(t, label+"N")
	perm := rapid.Permutation(from).Draw(t, label)
	return append([]string{}, perm[:n]...)
}

// GenFileSpec generates a valid configuration file.
func GenFileSpec(t *rapid.T, allowSampledDrop bool) FileSpec {
	var f FileSpec
	all := AllFields()
	f.MaxFields = len(all) + rapid.IntRange(0, 4).Draw(t, "reserved")
	f.LevelMapping = rapid.SampledFrom([][]string{
		{"off", "fatal", "crit", "error", "warn", "notice", "info", "debug"},
		{"L0", "L1", "L2", "L3", "L4", "L5", "L6", "L7"},
	}).Draw(t, "levels")
	st := &genState{allowSampled: false}
	f.Extractions = genSteps(t, st, 1, rapid.IntRange(1, 3).Draw(t, "nextract"))
	// seed f0..f4 from the message so that programs have something to work on
	f.Extractions = append([]Step{{T: "extract", Key: "log", Pattern: `^(?P<f0>[a-z0-9]*)[ -](?P<f1>[^ ]*) ?(?P<f2>[^ ]*)`}}, f.Extractions...)
	f.OrchType = "byKeySet"
	if rapid.IntRange(0, 5).Draw(t, "singleton") == 0 {
		f.OrchType = "singleton"
	}
	keyPool := []string{"app", "level", "host", "f0", "source"}
	if f.OrchType == "byKeySet" {
		f.Keys = pickSubset(t, "keys", keyPool, 1, 3)
	}
	f.Tag = genTagTemplate(t, f.Keys)
	var mkPool []string
	for _, k := range []string{"host", "source", "f1", "app", "pid"} {
		used := false
		for _, kk := range f.Keys {
			if kk == k {
				used = true
			}
		}
		if !used {
			mkPool = append(mkPool, k)
		}
	}
	f.MetricKeys = pickSubset(t, "metricKeys", mkPool, 1, 2)
	st2 := &genState{allowSampled: allowSampledDrop}
	f.Prog = genSteps(t, st2, 2, rapid.IntRange(1, 4).Draw(t, "nprog"))
	nout := rapid.IntRange(1, 2).Draw(t, "nout")
	for i := 0; i < nout; i++ {
		o := OutputSpec{Name: fmt.Sprintf("out%d", i)}
		if i == 1 && rapid.Bool().Draw(t, "datadog") {
			o.Kind = "datadog"
			o.Hidden = pickSubset(t, "ddHidden", all, 0, 4)
		} else {
			o.Kind = "fluentdForward"
			o.Env = pickSubset(t, "env", all, 1, 4)
			o.Hidden = pickSubset(t, "hidden", all, 0, 4)
			o.Mode = rapid.SampledFrom([]string{"Forward", "PackedForward", "CompressedPackedForward"}).Draw(t, "mode")
			if rapid.Bool().Draw(t, "rewrite") {
				rw := RewriteSpec{Field: rapid.SampledFrom([]string{"log", "f0", "f2"}).Draw(t, "rwField"), Last: rapid.SampledFrom([]string{"copy", "unescape"}).Draw(t, "rwLast")}
				for k := rapid.IntRange(0, 2).Draw(t, "nInline"); k > 0; k-- {
					rw.Inline = append(rw.Inline, rapid.SampledFrom(all).Draw(t, "inline"))
				}
				o.Rewrites = append(o.Rewrites, rw)
			}
		}
		f.Outputs = append(f.Outputs, o)
	}
	return f
}
