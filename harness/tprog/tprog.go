// Package tprog holds transform programs as data: the AST, its YAML rendering (loaded through the agent's real
// configuration path), rapid generators, and an independent reference interpreter written from the documentation
// (config_sample.yml comments and package docs). Used by C15 and reused by C07, C12, C16 and C19.
package tprog

import (
	"fmt"
	"regexp"
	"sort"
	"strconv"
	"strings"
	"unicode/utf8"
)

// TPart is one part of a template: a literal, or a variable with optional slice bounds.
type TPart struct {
	Lit      string `json:"lit,omitempty"`
	Var      string `json:"var,omitempty"`
	Braces   bool   `json:"braces,omitempty"`
	HasStart bool   `json:"hasStart,omitempty"`
	Start    int    `json:"start,omitempty"`
	HasEnd   bool   `json:"hasEnd,omitempty"`
	End      int    `json:"end,omitempty"`
}

type Cond struct {
	Field string `json:"field"`
	Op    string `json:"op"` // str str-eq str-not str-start str-end str-contain str-any len-gt len-lt glob regex
	Arg   string `json:"arg"`
}

type Case struct {
	Match []Cond `json:"match"`
	Then  []Step `json:"then"`
}

type AddField struct {
	Dest     string  `json:"dest"`
	Template []TPart `json:"template"`
}

type Step struct {
	T string `json:"t"`
	// addFields
	Add []AddField `json:"add,omitempty"`
	// delFields
	Keys []string `json:"keys,omitempty"`
	// mapValue / truncate / unescape / replace / extract / extractHead / extractTail / redactEmail / parseTime
	Key     string            `json:"key,omitempty"`
	Mapping map[string]string `json:"mapping,omitempty"`
	Default string            `json:"default,omitempty"`
	// if / drop
	Match []Cond `json:"match,omitempty"`
	Then  []Step `json:"then,omitempty"`
	// switch
	Cases []Case `json:"cases,omitempty"`
	// block
	Steps []Step `json:"steps,omitempty"`
	// drop
	Percentage int    `json:"percentage,omitempty"`
	Label      string `json:"label,omitempty"`
	// extractHead/Tail: pattern = Left + Wild + Right where Wild is "*" or a bracket expression like "[a-z0-9-]"
	Left    string `json:"left,omitempty"`
	Wild    string `json:"wild,omitempty"`
	Right   string `json:"right,omitempty"`
	MaxLen  int    `json:"maxLen,omitempty"`
	DestKey string `json:"destKey,omitempty"`
	// truncate
	Suffix string `json:"suffix,omitempty"`
	// replace / extract
	Pattern     string `json:"pattern,omitempty"`
	Replacement string `json:"replacement,omitempty"`
}

// ---------------------------------------------------------------------------
// YAML rendering

func q(s string) string {
	// YAML double-quoted scalar; config strings are restricted by the generators to printable ASCII plus a few runes
	return strconv.Quote(s)
}

func escapePatternPart(s string) string {
	s = strings.ReplaceAll(s, `\`, `\\`)
	s = strings.ReplaceAll(s, `[`, `\[`)
	s = strings.ReplaceAll(s, `]`, `\]`)
	s = strings.ReplaceAll(s, `*`, `\*`)
	return s
}

// TemplateString renders a template.
func TemplateString(parts []TPart) string {
	var b strings.Builder
	for _, p := range parts {
		switch {
		case p.Var == "":
			b.WriteString(p.Lit)
		case !p.Braces:
			b.WriteString("$" + p.Var)
		default:
			b.WriteString("${" + p.Var)
			if p.HasStart || p.HasEnd {
				b.WriteString("[")
				if p.HasStart {
					b.WriteString(strconv.Itoa(p.Start))
				}
				b.WriteString(":")
				if p.HasEnd {
					b.WriteString(strconv.Itoa(p.End))
				}
				b.WriteString("]")
			}
			b.WriteString("}")
		}
	}
	return b.String()
}

func renderMatch(b *strings.Builder, ind string, conds []Cond) {
	b.WriteString(ind + "match:\n")
	for _, c := range conds {
		if c.Op == "str-any" {
			b.WriteString(fmt.Sprintf("%s  %s: !!str-any\n", ind, c.Field))
			continue
		}
		b.WriteString(fmt.Sprintf("%s  %s: !!%s %s\n", ind, c.Field, c.Op, q(c.Arg)))
	}
}

// YAML renders a list of steps as a YAML sequence at the given indentation.
func YAML(steps []Step, ind string) string {
	var b strings.Builder
	for _, s := range steps {
		renderStep(&b, ind, s)
	}
	return b.String()
}

func renderStep(b *strings.Builder, ind string, s Step) {
	b.WriteString(ind + "- type: " + s.T + "\n")
	in := ind + "  "
	switch s.T {
	case "addFields":
		b.WriteString(in + "fields:\n")
		for _, a := range s.Add {
			b.WriteString(fmt.Sprintf("%s  %s: %s\n", in, a.Dest, q(TemplateString(a.Template))))
		}
	case "delFields":
		b.WriteString(in + "keys: [" + strings.Join(s.Keys, ", ") + "]\n")
	case "mapValue":
		b.WriteString(in + "key: " + s.Key + "\n" + in + "mapping:\n")
		keys := make([]string, 0, len(s.Mapping))
		for k := range s.Mapping {
			keys = append(keys, k)
		}
		sort.Strings(keys)
		for _, k := range keys {
			b.WriteString(fmt.Sprintf("%s  %s: %s\n", in, q(k), q(s.Mapping[k])))
		}
		b.WriteString(in + "default: " + q(s.Default) + "\n")
	case "if":
		renderMatch(b, in, s.Match)
		b.WriteString(in + "then:\n")
		for _, t := range s.Then {
			renderStep(b, in+"  ", t)
		}
	case "switch":
		b.WriteString(in + "cases:\n")
		for _, c := range s.Cases {
			var mb strings.Builder
			renderMatch(&mb, in+"    ", c.Match)
			m := mb.String()
			// first key of the list item carries the dash
			m = in + "  - " + strings.TrimPrefix(m, in+"    ")
			b.WriteString(m)
			b.WriteString(in + "    then:\n")
			for _, t := range c.Then {
				renderStep(b, in+"      ", t)
			}
		}
	case "block":
		b.WriteString(in + "steps:\n")
		for _, t := range s.Steps {
			renderStep(b, in+"  ", t)
		}
	case "drop":
		renderMatch(b, in, s.Match)
		b.WriteString(fmt.Sprintf("%spercentage: %d\n%smetricLabel: %s\n", in, s.Percentage, in, s.Label))
	case "extractHead", "extractTail":
		pat := escapePatternPart(s.Left) + s.Wild + escapePatternPart(s.Right)
		b.WriteString(fmt.Sprintf("%skey: %s\n%spattern: %s\n%smaxLen: %d\n%sdestKey: %s\n", in, s.Key, in, q(pat), in, s.MaxLen, in, s.DestKey))
	case "truncate":
		b.WriteString(fmt.Sprintf("%skey: %s\n%smaxLen: %d\n%ssuffix: %s\n", in, s.Key, in, s.MaxLen, in, q(s.Suffix)))
	case "unescape":
		b.WriteString(in + "key: " + s.Key + "\n")
	case "replace":
		b.WriteString(fmt.Sprintf("%skey: %s\n%spattern: %s\n%sreplacement: %s\n", in, s.Key, in, q(s.Pattern), in, q(s.Replacement)))
	case "extract":
		b.WriteString(fmt.Sprintf("%skey: %s\n%spattern: %s\n", in, s.Key, in, q(s.Pattern)))
	case "redactEmail":
		b.WriteString(fmt.Sprintf("%skey: %s\n%smetricLabel: %s\n", in, s.Key, in, s.Label))
	case "parseTime":
		b.WriteString(fmt.Sprintf("%skey: %s\n%serrorLabel: %s\n", in, s.Key, in, s.Label))
	default:
		panic("unknown step type " + s.T)
	}
}

// ---------------------------------------------------------------------------
// reference interpreter

// Rec is the reference model of a record.
type Rec struct {
	Fields    map[string]string
	Unescaped bool
}

// Env gives the interpreter access to the one thing it cannot know: the decision of a sampled drop, observed through
// the documented per-label counters of the real run (see C15 in DESIGN.md).
type Env struct {
	SampledDropped func(label string) bool // did the sampled drop with this metric label drop the current record?
	Events         map[string]int          // label -> number of times counted (incl. "!label" for retained)
	Notes          []string                // freedom used by the reference (validity predicates instead of one answer)
}

func (e *Env) count(label string) {
	if e.Events == nil {
		e.Events = map[string]int{}
	}
	e.Events[label]++
}

// Expand expands a template against field values (documented: $var, ${var}, ${var[a:b]} with Python-like slicing, no overflow).
func Expand(parts []TPart, fields map[string]string) string {
	var b strings.Builder
	for _, p := range parts {
		if p.Var == "" {
			b.WriteString(p.Lit)
			continue
		}
		v := fields[p.Var]
		if p.HasStart || p.HasEnd {
			n := len(v)
			a, z := 0, n
			if p.HasStart {
				a = p.Start
				if a < 0 {
					a += n
					if a < 0 {
						a = 0
					}
				} else if a > n {
					a = n
				}
			}
			if p.HasEnd {
				z = p.End
				if z < 0 {
					z += n
					if z < 0 {
						z = 0
					}
				} else if z > n {
					z = n
				}
			}
			if a < z {
				v = v[a:z]
			} else {
				v = ""
			}
		}
		b.WriteString(v)
	}
	return b.String()
}

var (
	reCache   = map[string]*regexp.Regexp{}
	globCache = map[string]*regexp.Regexp{}
)

func mustRe(p string) *regexp.Regexp {
	if r, ok := reCache[p]; ok {
		return r
	}
	r := regexp.MustCompile(p)
	reCache[p] = r
	return r
}

// globToRe translates the supported glob subset (*, **, ?, {a,b}, literals) into a regular expression.
func globToRe(g string) *regexp.Regexp {
	if r, ok := globCache[g]; ok {
		return r
	}
	var b strings.Builder
	b.WriteString("(?s)^")
	for i := 0; i < len(g); i++ {
		switch c := g[i]; c {
		case '*':
			for i+1 < len(g) && g[i+1] == '*' {
				i++
			}
			b.WriteString(".*")
		case '?':
			b.WriteString(".")
		case '{':
			end := strings.IndexByte(g[i:], '}') + i
			alts := strings.Split(g[i+1:end], ",")
			for k := range alts {
				alts[k] = regexp.QuoteMeta(alts[k])
			}
			b.WriteString("(?:" + strings.Join(alts, "|") + ")")
			i = end
		default:
			b.WriteString(regexp.QuoteMeta(string(c)))
		}
	}
	b.WriteString("$")
	r := regexp.MustCompile(b.String())
	globCache[g] = r
	return r
}

// Matches evaluates an AND of conditions.
func Matches(conds []Cond, fields map[string]string) bool {
	for _, c := range conds {
		v := fields[c.Field]
		ok := false
		switch c.Op {
		case "str", "str-eq":
			ok = v == c.Arg
		case "str-not":
			ok = v != c.Arg
		case "str-start":
			ok = len(v) >= len(c.Arg) && v[:len(c.Arg)] == c.Arg
		case "str-end":
			ok = len(v) >= len(c.Arg) && v[len(v)-len(c.Arg):] == c.Arg
		case "str-contain":
			ok = strings.Contains(v, c.Arg)
		case "str-any":
			ok = v != ""
		case "len-gt":
			n, _ := strconv.Atoi(c.Arg)
			ok = len(v) > n
		case "len-lt":
			n, _ := strconv.Atoi(c.Arg)
			ok = len(v) < n
		case "glob":
			ok = globToRe(c.Arg).MatchString(v)
		case "regex":
			ok = mustRe(c.Arg).MatchString(v)
		default:
			panic("unknown op " + c.Op)
		}
		if !ok {
			return false
		}
	}
	return true
}

// classTable builds the byte table of a bracket expression like "[a-z0-9-]" or "[^,;]".
func classTable(wild string) *[256]bool {
	var t [256]bool
	expr := wild[1 : len(wild)-1]
	neg := false
	if strings.HasPrefix(expr, "^") {
		neg = true
		expr = expr[1:]
	}
	for i := 0; i < len(expr); i++ {
		if i+2 < len(expr) && expr[i+1] == '-' {
			for c := int(expr[i]); c <= int(expr[i+2]); c++ {
				t[c] = true
			}
			i += 2
			continue
		}
		t[expr[i]] = true
	}
	if neg {
		for i := range t {
			t[i] = !t[i]
		}
	}
	return &t
}

func trimCtl(s string) string {
	a, z := 0, len(s)
	for a < z && s[a] <= ' ' {
		a++
	}
	for z > a && s[z-1] <= ' ' {
		z--
	}
	return s[a:z]
}

// ExtractHead implements the documented extractHead: value must start with Left; the label is delimited by the first
// Right found within the first MaxLen bytes (or, without Right, is the longest run of class characters); a class restricts
// the label's characters; the label is trimmed of control characters and spaces; returns (label, remainder, matched).
func ExtractHead(v string, s Step) (string, string, bool) {
	if !strings.HasPrefix(v, s.Left) {
		return "", v, false
	}
	rest := v[len(s.Left):]
	var tbl *[256]bool
	if s.Wild != "*" {
		tbl = classTable(s.Wild)
		if len(rest) > 0 && !tbl[rest[0]] {
			return "", v, false
		}
	}
	if s.Right != "" {
		window := rest
		if len(window) > s.MaxLen {
			window = window[:s.MaxLen]
		}
		i := strings.Index(window, s.Right)
		if i < 0 {
			return "", v, false
		}
		label := rest[:i]
		if tbl != nil {
			for k := 0; k < len(label); k++ {
				if !tbl[label[k]] {
					return "", v, false
				}
			}
		}
		return trimCtl(label), rest[i+len(s.Right):], true
	}
	n := 0
	for n < len(rest) && tbl[rest[n]] {
		n++
	}
	if n == 0 {
		return "", v, false
	}
	return trimCtl(rest[:n]), rest[n:], true
}

// ExtractTail mirrors ExtractHead at the end of the value.
func ExtractTail(v string, s Step) (string, string, bool) {
	if !strings.HasSuffix(v, s.Right) {
		return "", v, false
	}
	rest := v[:len(v)-len(s.Right)]
	var tbl *[256]bool
	if s.Wild != "*" {
		tbl = classTable(s.Wild)
		if len(rest) > 0 && !tbl[rest[len(rest)-1]] {
			return "", v, false
		}
	}
	if s.Left != "" {
		off := 0
		if len(rest) > s.MaxLen {
			off = len(rest) - s.MaxLen
		}
		i := strings.LastIndex(rest[off:], s.Left)
		if i < 0 {
			return "", v, false
		}
		i += off
		label := rest[i+len(s.Left):]
		if tbl != nil {
			for k := 0; k < len(label); k++ {
				if !tbl[label[k]] {
					return "", v, false
				}
			}
		}
		return trimCtl(label), rest[:i], true
	}
	n := len(rest)
	for n > 0 && tbl[rest[n-1]] {
		n--
	}
	if n == len(rest) {
		return "", v, false
	}
	return trimCtl(rest[n:]), rest[:n], true
}

// TruncateRef: values longer than maxLen+len(suffix) are cut to maxLen bytes, then everything after the last ASCII byte
// that is not a complete valid UTF-8 sequence is removed, then the suffix is appended.
func TruncateRef(v string, maxLen int, suffix string) string {
	if len(v) <= maxLen+len(suffix) {
		return v
	}
	cut := v[:maxLen]
	lastASCII := -1
	for i := len(cut) - 1; i >= 0; i-- {
		if cut[i] < 0x80 {
			lastASCII = i
			break
		}
	}
	head, tail := cut[:lastASCII+1], cut[lastASCII+1:]
	var clean []byte
	for len(tail) > 0 {
		r, n := utf8.DecodeRuneInString(tail)
		if r != utf8.RuneError || n > 1 {
			clean = append(clean, tail[:n]...)
		}
		tail = tail[n:]
	}
	return head + string(clean) + suffix
}

// Unescape is the documented syslog unescaping (\b \f \n \r \t \\; other \x unchanged; trailing backslash kept).
func Unescape(s string) string {
	out := make([]byte, 0, len(s))
	for i := 0; i < len(s); i++ {
		c := s[i]
		if c != '\\' || i == len(s)-1 {
			out = append(out, c)
			continue
		}
		i++
		switch s[i] {
		case 'b':
			out = append(out, '\b')
		case 'f':
			out = append(out, '\f')
		case 'n':
			out = append(out, '\n')
		case 'r':
			out = append(out, '\r')
		case 't':
			out = append(out, '\t')
		case '\\':
			out = append(out, '\\')
		default:
			out = append(out, '\\', s[i])
		}
	}
	return string(out)
}

// Run interprets steps on rec; returns false when the record is dropped.
func Run(steps []Step, rec *Rec, env *Env) bool {
	for i := range steps {
		if !runStep(&steps[i], rec, env) {
			return false
		}
	}
	return true
}

func runStep(s *Step, rec *Rec, env *Env) bool {
	f := rec.Fields
	switch s.T {
	case "addFields":
		// fields of one step are independent by construction (no template reads another destination of the same step)
		vals := make([]string, len(s.Add))
		for i, a := range s.Add {
			vals[i] = Expand(a.Template, f)
		}
		for i, a := range s.Add {
			if vals[i] != "" {
				f[a.Dest] = vals[i]
			}
		}
	case "delFields":
		for _, k := range s.Keys {
			f[k] = ""
		}
	case "mapValue":
		if v := f[s.Key]; v != "" {
			if nv, ok := s.Mapping[v]; ok {
				f[s.Key] = nv
			} else {
				f[s.Key] = s.Default
			}
		}
	case "if":
		if Matches(s.Match, f) {
			return Run(s.Then, rec, env)
		}
	case "switch":
		for i := range s.Cases {
			if Matches(s.Cases[i].Match, f) {
				return Run(s.Cases[i].Then, rec, env)
			}
		}
	case "block":
		return Run(s.Steps, rec, env)
	case "drop":
		if !Matches(s.Match, f) {
			return true
		}
		if s.Percentage == 100 {
			env.count(s.Label)
			return false
		}
		if env.SampledDropped != nil && env.SampledDropped(s.Label) {
			env.count(s.Label)
			return false
		}
		env.count("!" + s.Label)
	case "extractHead":
		if v := f[s.Key]; v != "" {
			if label, rest, ok := ExtractHead(v, *s); ok {
				f[s.Key] = rest
				f[s.DestKey] = label
			}
		}
	case "extractTail":
		if v := f[s.Key]; v != "" {
			if label, rest, ok := ExtractTail(v, *s); ok {
				f[s.Key] = rest
				f[s.DestKey] = label
			}
		}
	case "truncate":
		f[s.Key] = TruncateRef(f[s.Key], s.MaxLen, s.Suffix)
	case "unescape":
		if !rec.Unescaped {
			rec.Unescaped = true
			f[s.Key] = Unescape(f[s.Key])
		}
	case "replace":
		if v := f[s.Key]; v != "" {
			f[s.Key] = mustRe(s.Pattern).ReplaceAllString(v, s.Replacement)
		}
	case "extract":
		re := mustRe(s.Pattern)
		v := f[s.Key]
		if m := re.FindStringSubmatchIndex(v); m != nil {
			for i, name := range re.SubexpNames() {
				if name != "" && m[2*i] >= 0 {
					f[name] = v[m[2*i]:m[2*i+1]]
				}
			}
		}
	default:
		panic("reference interpreter: unknown step " + s.T)
	}
	return true
}

// SampledLabels lists the metric labels of all sampled (<100 %) drop steps of a program.
func SampledLabels(steps []Step) []string {
	var out []string
	var walk func([]Step)
	walk = func(l []Step) {
		for _, s := range l {
			if s.T == "drop" && s.Percentage < 100 {
				out = append(out, s.Label)
			}
			walk(s.Then)
			walk(s.Steps)
			for _, c := range s.Cases {
				walk(c.Then)
			}
		}
	}
	walk(steps)
	return out
}

// AllLabels lists all metric labels (drop labels, and "!label" for sampled ones).
func AllLabels(steps []Step) []string {
	var out []string
	var walk func([]Step)
	walk = func(l []Step) {
		for _, s := range l {
			if s.T == "drop" {
				out = append(out, s.Label)
				if s.Percentage < 100 {
					out = append(out, "!"+s.Label)
				}
			}
			walk(s.Then)
			walk(s.Steps)
			for _, c := range s.Cases {
				walk(c.Then)
			}
		}
	}
	walk(steps)
	return out
}

// DropSteps returns label -> percentage for all drop steps.
func DropSteps(steps []Step) map[string]int {
	out := map[string]int{}
	var walk func([]Step)
	walk = func(l []Step) {
		for _, s := range l {
			if s.T == "drop" {
				out[s.Label] = s.Percentage
			}
			walk(s.Then)
			walk(s.Steps)
			for _, c := range s.Cases {
				walk(c.Then)
			}
		}
	}
	walk(steps)
	return out
}
