package c10serial

import (
	"testing"

	"verifharness/vh"
)

// FuzzSerialize: coverage-guided exploration of schemas, rewriters and values with the decode oracle (thorough tier).
func FuzzSerialize(f *testing.F) { vh.FuzzSpec(f, gen, run) }
