// C10 — serialized Fluentd events decode to exactly the record's visible fields.
package c10serial

import (
	"fmt"
	"sort"
	"strings"
	"testing"
	"time"

	"github.com/relex/gotils/logger"
	"github.com/relex/slog-agent/base"
	"github.com/relex/slog-agent/defs"
	"github.com/relex/slog-agent/output/fluentdforward"
	"github.com/relex/slog-agent/rewrite"
	"github.com/relex/slog-agent/util"
	"pgregory.net/rapid"

	"verifharness/vh"
)

func init() {
	vh.QuietLogs(logger.ErrorLevel)
	rewrite.Register()
}

type Rewrite struct {
	Field  int    `json:"field"`
	Inline []int  `json:"inline"`
	Last   string `json:"last"` // copy | unescape
}

type Case struct {
	Names     []string   `json:"names"`
	MaxFields int        `json:"maxFields"`
	Env       []int      `json:"env"`
	Hidden    []int      `json:"hidden"`
	Rewrites  []Rewrite  `json:"rewrites"`
	Values    [][]vh.Seg `json:"values"`
	Sec       uint32     `json:"sec"`
	Nsec      uint32     `json:"nsec"`
	Unescaped bool       `json:"unescaped"`
	Outputs   int        `json:"outputs"` // number of serializers applied in sequence to the same record (multi-output)
	SmallBuf  bool       `json:"smallBuf,omitempty"` // the record limit (a defs variable; the serializer's buffer starts at twice that) is scaled down
	// to 64 bytes, so that almost every record is larger than the buffer and takes the path on which the buffer is re-made
	// with exactly the estimated length - any under-estimate of the encoder's output shows
}

func (c Case) yaml() string {
	var b strings.Builder
	b.WriteString("type: fluentdForward\nserialization:\n")
	names := func(idx []int) string {
		var l []string
		for _, i := range idx {
			l = append(l, c.Names[i])
		}
		return "[" + strings.Join(l, ", ") + "]"
	}
	b.WriteString("  environmentFields: " + names(c.Env) + "\n")
	b.WriteString("  hiddenFields: " + names(c.Hidden) + "\n")
	if len(c.Rewrites) > 0 {
		b.WriteString("  rewriteFields:\n")
		for _, rw := range c.Rewrites {
			b.WriteString("    " + c.Names[rw.Field] + ":\n")
			for _, in := range rw.Inline {
				b.WriteString("      - type: inline\n        field: " + c.Names[in] + "\n")
			}
			b.WriteString("      - type: " + rw.Last + "\n")
		}
	}
	b.WriteString("messageMode: Forward\nupstream:\n  address: localhost:24224\n  tls: false\n  secret: \"\"\n  maxDuration: 30m\n")
	return b.String()
}

func contains(l []int, x int) bool {
	for _, v := range l {
		if v == x {
			return true
		}
	}
	return false
}

var boundaryLens = map[int]bool{0: true, 1: true, 15: true, 16: true, 31: true, 32: true, 255: true, 256: true, 65535: true, 65536: true}

func run(c Case) vh.Result {
	res := vh.Result{}
	defs.InputLogMaxMessageBytes = 200000
	defs.InputLogMaxRecordBytes = 200256
	if c.SmallBuf {
		defs.InputLogMaxRecordBytes = 64
		res.Classes = append(res.Classes, "record-larger-than-the-serializer-buffer(estimate is exact)")
	}
	schema, err := base.NewLogSchema(c.Names, c.MaxFields)
	if err != nil {
		panic(err)
	}
	cfg := &fluentdforward.Config{}
	if err := util.UnmarshalYamlString(c.yaml(), cfg); err != nil {
		panic(fmt.Sprintf("harness generated bad yaml: %v\n%s", err, c.yaml()))
	}
	if err := cfg.VerifyConfig(schema); err != nil {
		panic(fmt.Sprintf("harness generated a config that is rejected: %v\n%s", err, c.yaml()))
	}
	alloc := base.NewLogAllocator(schema, c.Outputs)
	rec, _ := alloc.NewRecord(nil)
	values := make([]string, len(c.Names))
	for i := range c.Names {
		values[i] = string(vh.Expand(c.Values[i]))
		rec.Fields[i] = strings.Clone(values[i])
	}
	for i := len(c.Names); i < c.MaxFields; i++ {
		rec.Fields[i] = "RESERVED-JUNK"
	}
	rec.Timestamp = time.Unix(int64(c.Sec), int64(c.Nsec))
	rec.Unescaped = c.Unescaped
	rec.RawLength = 10

	// expected, from the documentation
	rwByField := map[int]Rewrite{}
	for _, rw := range c.Rewrites {
		rwByField[rw.Field] = rw
	}
	expFields := map[string]string{}
	lengthChanged := false
	for i, name := range c.Names {
		if contains(c.Env, i) || contains(c.Hidden, i) || values[i] == "" {
			continue
		}
		v := values[i]
		if rw, ok := rwByField[i]; ok {
			body := v
			if rw.Last == "unescape" && !c.Unescaped {
				body = vh.RefUnescape(v)
			}
			prefix := ""
			for _, in := range rw.Inline {
				if values[in] != "" {
					prefix += c.Names[in] + "=" + values[in] + " "
				}
			}
			if len(prefix+body) != len(v) {
				lengthChanged = true
			}
			v = prefix + body
		}
		expFields[name] = v
	}
	expEnv := map[string]string{}
	for _, i := range c.Env {
		expEnv[c.Names[i]] = values[i]
	}
	atBoundary := false
	for i := range values {
		if boundaryLens[len(values[i])] && len(values[i]) > 1 {
			atBoundary = true
		}
	}
	res.NonTrivial = atBoundary || lengthChanged
	if atBoundary {
		res.Classes = append(res.Classes, "value-at-length-class-boundary")
	}
	if lengthChanged {
		res.Classes = append(res.Classes, "rewrite-changes-length")
	}
	if len(c.Names)+1 >= 16 {
		res.Classes = append(res.Classes, "schema>=15-fields(map16)")
	}
	if c.Outputs > 1 {
		res.Classes = append(res.Classes, "multi-output")
	}
	if c.MaxFields > len(c.Names) {
		res.Classes = append(res.Classes, "reserved-fields")
	}

	for o := 0; o < c.Outputs; o++ {
		ser := cfg.NewSerializer(logger.Root(), schema, "tag")
		stream := ser.SerializeRecord(rec)
		v, n, err := vh.MPDecode(stream)
		if err != nil {
			res.Violation = vh.Fail("serial:malformed-msgpack", "output %d: %v (stream %d bytes)", o, err, len(stream))
			return res
		}
		if n != len(stream) {
			res.Violation = vh.Fail("serial:trailing-bytes", "output %d: %d bytes decoded of %d", o, n, len(stream))
			return res
		}
		ev, err := vh.DecodeForwardEvent(v)
		if err != nil {
			res.Violation = vh.Fail("serial:not-an-event", "output %d: %v", o, err)
			return res
		}
		if ev.Sec != c.Sec || ev.Nsec != c.Nsec {
			res.Violation = vh.Fail("serial:time", "output %d: time %d.%09d want %d.%09d", o, ev.Sec, ev.Nsec, c.Sec, c.Nsec)
			return res
		}
		if d := diffMaps(expFields, ev.Fields); d != "" {
			key := "serial:fields"
			if o > 0 {
				key = "serial:second-output-differs"
			}
			res.Violation = vh.Fail(key, "output %d top-level fields: %s", o, d)
			return res
		}
		if ev.Env == nil {
			res.Violation = vh.Fail("serial:no-environment", "output %d: environment map missing", o)
			return res
		}
		if d := diffMaps(expEnv, ev.Env); d != "" {
			res.Violation = vh.Fail("serial:environment", "output %d environment: %s", o, d)
			return res
		}
		// the record's own field values must be untouched (later outputs and metrics read them)
		for i := range c.Names {
			if string(rec.Fields[i]) != values[i] {
				res.Violation = vh.Fail("serial:record-modified", "output %d: field %s changed from %.40q to %.40q", o, c.Names[i], values[i], rec.Fields[i])
				return res
			}
		}
	}
	return res
}

func diffMaps(want, got map[string]string) string {
	var keys []string
	for k := range want {
		keys = append(keys, k)
	}
	for k := range got {
		if _, ok := want[k]; !ok {
			keys = append(keys, k)
		}
	}
	sort.Strings(keys)
	for _, k := range keys {
		w, wok := want[k]
		g, gok := got[k]
		switch {
		case !gok:
			return fmt.Sprintf("missing %q (want %d bytes %.40q)", k, len(w), w)
		case !wok:
			return fmt.Sprintf("unexpected %q = %.40q", k, g)
		case w != g:
			return fmt.Sprintf("%q: got %d bytes %.60q…%.20q want %d bytes %.60q…%.20q", k, len(g), g, tail(g), len(w), w, tail(w))
		}
	}
	return ""
}

func tail(s string) string {
	if len(s) > 16 {
		return s[len(s)-16:]
	}
	return s
}

var fieldNamePool = []string{"facility", "level", "time", "host", "app", "pid", "source", "extradata", "log", "class", "task", "vhost", "pnum", "ddsource", "ddtags", "hostname", "service",
	"a_very_long_field_name_beyond_15", "x", "f19", "f20", "f21", "f22", "f23", "f24", "exactly15chars__", "exactly16chars___"}

func genValue(t *rapid.T, label string, maxLen int) []vh.Seg {
	kind := rapid.IntRange(0, 9).Draw(t, label+"Kind")
	var n int
	switch {
	case kind == 0:
		return nil
	case kind <= 3:
		n = rapid.IntRange(1, 40).Draw(t, label+"Len")
	case kind <= 7:
		b := rapid.SampledFrom([]int{15, 16, 31, 32, 255, 256, 65535, 65536}).Draw(t, label+"B")
		n = b + rapid.IntRange(-2, 2).Draw(t, label+"D")
	default:
		n = rapid.IntRange(1, 70000).Draw(t, label+"Len")
	}
	if n > maxLen {
		n = maxLen
	}
	if n <= 0 {
		return nil
	}
	units := [][]byte{[]byte("x"), []byte("ab"), []byte("é"), []byte("\\n"), []byte("\\\\"), []byte("\\t\\q"), []byte("\\"), {0xff, 0x00}, []byte("\n"), []byte("=\" ")}
	// a backslash followed by any byte at all (documented escapes, unknown ASCII escapes, UTF-8 lead and continuation bytes, NUL)
	units = append(units, []byte{'\\', rapid.Byte().Draw(t, label+"Esc")}, []byte{'\\', rapid.Byte().Draw(t, label+"Esc2"), 'q', '\\', rapid.Byte().Draw(t, label+"Esc3")})
	var segs []vh.Seg
	remaining := n
	parts := rapid.IntRange(1, 3).Draw(t, label+"Parts")
	for p := 0; p < parts && remaining > 0; p++ {
		u := rapid.SampledFrom(units).Draw(t, label+"U")
		share := remaining
		if p < parts-1 {
			share = rapid.IntRange(0, remaining).Draw(t, label+"S")
		}
		rep := share / len(u)
		if rep > 0 {
			segs = append(segs, vh.Seg{Raw: u, Rep: rep})
			remaining -= rep * len(u)
		}
	}
	if remaining > 0 {
		last := rapid.SampledFrom([]string{"z", "\\"}).Draw(t, label+"Last")
		segs = append(segs, vh.Seg{Raw: []byte("z"), Rep: remaining - 1}, vh.Seg{Raw: []byte(last), Rep: 1})
	}
	return segs
}

func gen(t *rapid.T) Case {
	var c Case
	n := rapid.OneOf(rapid.IntRange(1, 24), rapid.IntRange(13, 17)).Draw(t, "nFields")
	perm := rapid.Permutation(fieldNamePool).Draw(t, "names")
	c.Names = append([]string(nil), perm[:n]...)
	c.MaxFields = n + rapid.IntRange(0, 3).Draw(t, "reserved")
	role := make([]int, n) // 0 plain, 1 env, 2 hidden, 3 both
	for i := range role {
		role[i] = rapid.SampledFrom([]int{0, 0, 0, 1, 2, 3}).Draw(t, fmt.Sprintf("role%d", i))
	}
	role[rapid.IntRange(0, n-1).Draw(t, "envAtLeast")] = 1
	for i, r := range role {
		if r == 1 || r == 3 {
			c.Env = append(c.Env, i)
		}
		if r == 2 || r == 3 {
			c.Hidden = append(c.Hidden, i)
		}
	}
	nrw := rapid.IntRange(0, min(3, n)).Draw(t, "nRewrites")
	used := map[int]bool{}
	for k := 0; k < nrw; k++ {
		f := rapid.IntRange(0, n-1).Draw(t, "rwField")
		if used[f] {
			continue
		}
		used[f] = true
		rw := Rewrite{Field: f, Last: rapid.SampledFrom([]string{"copy", "unescape"}).Draw(t, "rwLast")}
		for j := rapid.IntRange(0, 2).Draw(t, "nInline"); j > 0; j-- {
			rw.Inline = append(rw.Inline, rapid.IntRange(0, n-1).Draw(t, "inlineField"))
		}
		c.Rewrites = append(c.Rewrites, rw)
	}
	budget := 180000
	c.Values = make([][]vh.Seg, n)
	for i := range c.Values {
		maxLen := budget / 3
		c.Values[i] = genValue(t, fmt.Sprintf("v%d", i), maxLen)
		// an inlined value is emitted once per rewrite that references it: keep the total below the buffer
		budget -= 3 * vh.SegLen(c.Values[i])
		if budget < 0 {
			budget = 0
		}
	}
	c.Sec = rapid.OneOf(rapid.Uint32(), rapid.Uint32Range(1500000000, 1800000000)).Draw(t, "sec")
	c.Nsec = rapid.Uint32Range(0, 999999999).Draw(t, "nsec")
	c.Unescaped = rapid.IntRange(0, 3).Draw(t, "unescaped") == 3
	c.Outputs = rapid.SampledFrom([]int{1, 1, 2, 3}).Draw(t, "outputs")
	c.SmallBuf = rapid.IntRange(0, 2).Draw(t, "smallBuf") == 0
	if c.SmallBuf && rapid.Bool().Draw(t, "emptyEnv") {
		// empty environment fields are still written (key + 1 byte): empty a few of them
		for _, i := range c.Env {
			if rapid.Bool().Draw(t, "emptyIt") {
				c.Values[i] = nil
			}
		}
	}
	return c
}

// enumLengths: one plain, one rewritten(copy), one rewritten(unescape) and one environment field at every length
// 0..300 and 65530..65540 (every length-class boundary on both sides).
func enumLengths(yield func(Case) bool) {
	var lens []int
	for i := 0; i <= 300; i++ {
		lens = append(lens, i)
	}
	for i := 65530; i <= 65540; i++ {
		lens = append(lens, i)
	}
	for _, n := range lens {
		for _, unit := range []string{"x", "\\n"} {
			val := []vh.Seg{{Raw: []byte(unit), Rep: n / len(unit)}, {Raw: []byte("z"), Rep: n % len(unit)}}
			c := Case{Names: []string{"plain", "copied", "unesc", "envf", "inl"}, MaxFields: 5, Env: []int{3},
				Rewrites: []Rewrite{{Field: 1, Last: "copy"}, {Field: 2, Inline: []int{4}, Last: "unescape"}},
				Values:   [][]vh.Seg{val, val, val, val, {{Raw: []byte("K"), Rep: n % 3}}}, Sec: 1600000000, Nsec: 5, Outputs: 1}
			if !yield(c) {
				return
			}
		}
	}
	// every byte value behind a backslash (in the middle, doubled, and as the last two bytes of the value), in a field
	// rewritten by unescape, by inline+unescape, and by copy: only the six documented escapes may change anything
	for b := 0; b < 256; b++ {
		for _, shape := range [][]vh.Seg{
			{{Raw: []byte("x\\"), Rep: 1}, {Raw: []byte{byte(b)}, Rep: 1}, {Raw: []byte("y"), Rep: 1}},
			{{Raw: []byte("\\"), Rep: 1}, {Raw: []byte{byte(b)}, Rep: 1}},
			{{Raw: []byte("\\\\\\"), Rep: 1}, {Raw: []byte{byte(b)}, Rep: 1}, {Raw: []byte("\\"), Rep: 1}, {Raw: []byte{byte(b)}, Rep: 2}},
		} {
			c := Case{Names: []string{"plain", "copied", "unesc", "envf", "inl", "unesc2"}, MaxFields: 6, Env: []int{3},
				Rewrites: []Rewrite{{Field: 1, Last: "copy"}, {Field: 2, Inline: []int{4}, Last: "unescape"}, {Field: 5, Last: "unescape"}},
				Values:   [][]vh.Seg{shape, shape, shape, shape, {{Raw: []byte("K"), Rep: b % 3}}, shape}, Sec: 1600000000, Nsec: 5, Outputs: 1 + b%2}
			if !yield(c) {
				return
			}
		}
	}
	// small buffer: k long-named environment fields, all empty, and one visible value of growing length
	for k := 1; k <= 5; k++ {
		for _, n := range []int{0, 1, 40, 100, 127, 128, 129, 200, 255, 256, 300, 1000, 70000} {
			names := []string{"log", "a_very_long_field_name_beyond_15", "exactly16chars___", "exactly15chars__", "kubernetes_namespace_name_x", "kubernetes_container_name_y"}[:k+1]
			env := []int{}
			vals := [][]vh.Seg{{{Raw: []byte("v"), Rep: n}}}
			for i := 1; i <= k; i++ {
				env = append(env, i)
				vals = append(vals, nil)
			}
			c := Case{Names: names, MaxFields: len(names), Env: env, Values: vals, Sec: 1, Nsec: 2, Outputs: 1, SmallBuf: true}
			if !yield(c) {
				return
			}
		}
	}
	// every number of fields 1..24 with all fields visible and non-empty (map length class 15/16)
	for n := 1; n <= 24; n++ {
		c := Case{Names: append([]string(nil), fieldNamePool[:n]...), MaxFields: n, Env: []int{0}, Sec: 1, Nsec: 2, Outputs: 1}
		for i := 0; i < n; i++ {
			c.Values = append(c.Values, []vh.Seg{{Raw: []byte("v"), Rep: i + 1}})
		}
		if !yield(c) {
			return
		}
		// all fields in the environment
		c2 := c
		c2.Env = nil
		for i := 0; i < n; i++ {
			c2.Env = append(c2.Env, i)
		}
		if !yield(c2) {
			return
		}
	}
}

func TestC10Serialize(t *testing.T) {
	vh.Run(t, vh.Spec[Case]{
		Name: "serialize", Gen: gen, Run: run, Quick: 6000, Thorough: 60000, Enum: enumLengths, EnumOnlyShard0: true,
		Rule: "records over generated schemas (1-24 fields, reserved slots, random environment/hidden sets, rewrite chains inline*+copy|unescape) with values at 0,1,15/16,31/32,255/256,65535/65536±2 and up to 70000 bytes of ASCII, arbitrary bytes and every escape form; exhaustive lengths 0..300 and 65530..65540 for plain/copy/unescape/environment fields and 1..24 fields; oracle = independent strict MessagePack decoder + reference inline/unescape; 1-3 serializers in sequence on one record (multi-output); non-trivial = a value at a length-class boundary or a rewrite that changes the length",
	})
}
