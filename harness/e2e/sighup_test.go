package e2e

// C17, real signal delivery: one reload scenario per child process (every ReloadableOrchestrator installs a SIGHUP handler
// that is never removed, so a process can host only one). The child runs the scenario; whenever a reload is due it asks
// the parent for a signal (a line on stdout), the parent sends SIGHUP with kill(2), and the child waits until the
// agent's own handler has completed the reload. The verdict is the same oracle as in the in-process layer.

import (
	"bufio"
	"encoding/json"
	"fmt"
	"os"
	"os/exec"
	"strings"
	"syscall"
	"testing"
	"time"

	"pgregory.net/rapid"

	"verifharness/vh"
)

type childReport struct {
	Finding *vh.Finding `json:"finding"`
	Classes []string    `json:"classes"`
	Reloads int         `json:"reloads"`
	NonTriv bool        `json:"nonTrivial"`
}

func TestMain(m *testing.M) {
	if spec := os.Getenv("VERIF_SIGHUP_CHILD"); spec != "" {
		sighupChild(spec)
		return
	}
	os.Exit(m.Run())
}

func sighupChild(specPath string) {
	b, err := os.ReadFile(specPath)
	if err != nil {
		fmt.Println("CHILD-ERROR", err)
		os.Exit(3)
	}
	var sc Scenario
	if err := json.Unmarshal(b, &sc); err != nil {
		fmt.Println("CHILD-ERROR", err)
		os.Exit(3)
	}
	RealSighup = func(burst int, total func() float64) {
		before := total()
		fmt.Printf("SIGHUP-PLEASE %d\n", burst)
		deadline := time.Now().Add(30 * time.Second)
		for time.Now().Before(deadline) {
			if total() > before {
				if burst > 1 {
					// a signal that arrived during the reload has queued one more: let it finish (counter stable for a while)
					last, since := total(), time.Now()
					for time.Since(since) < 200*time.Millisecond && time.Now().Before(deadline) {
						time.Sleep(5 * time.Millisecond)
						if now := total(); now != last {
							last, since = now, time.Now()
						}
					}
				}
				return
			}
			time.Sleep(time.Millisecond)
		}
		panic("no reload was counted within 30 s after asking for SIGHUP: the signal handler did not run a reload")
	}
	res := runReload(sc)
	rep := childReport{Finding: res.Violation, Classes: res.Classes, NonTriv: res.NonTrivial}
	out, _ := json.Marshal(rep)
	fmt.Println("CHILD-REPORT " + string(out))
	os.Exit(0)
}

func runSighup(sc Scenario) vh.Result {
	res := vh.Result{}
	dir, err := os.MkdirTemp("", "verif-sighup-")
	if err != nil {
		panic(err)
	}
	defer os.RemoveAll(dir)
	spec, _ := json.Marshal(sc)
	specPath := dir + "/scenario.json"
	if err := os.WriteFile(specPath, spec, 0o644); err != nil {
		panic(err)
	}
	cmd := exec.Command(os.Args[0], "-test.run", "^$")
	cmd.Env = append(os.Environ(), "VERIF_SIGHUP_CHILD="+specPath, "VERIF_OUT=", "TMPDIR="+dir)
	stdout, err := cmd.StdoutPipe()
	if err != nil {
		panic(err)
	}
	cmd.Stderr = nil
	if err := cmd.Start(); err != nil {
		panic(err)
	}
	timer := time.AfterFunc(ScenarioBudget+60*time.Second, func() { _ = cmd.Process.Kill() })
	defer timer.Stop()
	signals := 0
	var rep *childReport
	var tail []string
	rd := bufio.NewReaderSize(stdout, 1<<20)
	for {
		line, rerr := rd.ReadString('\n')
		line = strings.TrimRight(line, "\n")
		switch {
		case strings.HasPrefix(line, "SIGHUP-PLEASE"):
			burst := 1
			fmt.Sscanf(line, "SIGHUP-PLEASE %d", &burst)
			for b := 0; b < burst; b++ {
				if b > 0 {
					time.Sleep(time.Duration(2+3*b) * time.Millisecond) // inside the window of the reload started by the first one
				}
				signals++
				_ = syscall.Kill(cmd.Process.Pid, syscall.SIGHUP)
			}
		case strings.HasPrefix(line, "CHILD-REPORT "):
			var r childReport
			if json.Unmarshal([]byte(line[len("CHILD-REPORT "):]), &r) == nil {
				rep = &r
			}
		case line != "":
			tail = append(tail, line)
			if len(tail) > 40 {
				tail = tail[1:]
			}
		}
		if rerr != nil {
			break
		}
	}
	werr := cmd.Wait()
	res.NonTrivial = signals > 0
	res.Classes = append(res.Classes, "real-SIGHUP-delivered-to-a-child-process")
	for _, g := range sc.Gens {
		for _, r := range g.Reloads {
			if r.Burst > 1 {
				res.Classes = append(res.Classes, "signals-arriving-while-a-reload-runs(burst)")
				break
			}
		}
	}
	if rep == nil {
		res.Violation = vh.Fail("reload:child-died", "the agent process died or hung after %d SIGHUP(s) (%v); last output:\n%s", signals, werr, strings.Join(tail, "\n"))
		return res
	}
	res.Classes = append(res.Classes, rep.Classes...)
	res.Violation = rep.Finding
	return res
}

func genSighupScenario(t *rapid.T) Scenario {
	sc := genReloadScenario(t)
	// one generation with traffic is enough here; the in-process layer covers the rest
	if len(sc.Gens) > 2 {
		sc.Gens = append(sc.Gens[:1], sc.Gens[len(sc.Gens)-1])
	}
	for gi := range sc.Gens {
		for ri := range sc.Gens[gi].Reloads {
			if rapid.Bool().Draw(t, "burst") {
				sc.Gens[gi].Reloads[ri].Burst = rapid.IntRange(2, 4).Draw(t, "nsignals")
			}
		}
	}
	return sc
}

func TestE2ESighup(t *testing.T) {
	vh.Run(t, vh.Spec[Scenario]{
		Name: "e2e-sighup", Gen: genSighupScenario, Run: runSighup, Quick: 3, Thorough: 15, ShrinkSeconds: 20,
		Rule: "reload scenarios of the e2e-reload family, one per child process, in which every reload is triggered by a real SIGHUP sent by the parent with kill(2) at the moment the scenario schedules it, half of the time as a burst of 2-4 signals a few ms apart so that signals arrive while a reload is running (the child waits until the agent's own signal handler has counted a reload); oracle as in e2e-reload, evaluated in the child; non-trivial = at least one signal was delivered",
	})
}
