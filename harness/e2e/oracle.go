package e2e

import (
	"fmt"
	"sort"
	"strings"
	"time"

	"verifharness/vh"
)

func (o *Outcome) describe() string {
	var b strings.Builder
	for _, so := range o.Stops {
		fmt.Fprintf(&b, "  stop %d: %.1f ms, drained=%v, sent %d lines (+%d on open connections), files per output:", so.Gen, so.StopMs, so.InputDrained, so.SentLines, so.OpenLines)
		for _, d := range so.Disk {
			fmt.Fprintf(&b, " %d", len(d))
		}
		b.WriteString("\n")
	}
	for i, s := range o.Servers {
		for _, m := range s {
			var st []string
			for _, ev := range m.Msg.Events {
				st = append(st, stampOf(ev.Fields["log"]))
			}
			fmt.Fprintf(&b, "  server %d conn %d chunk %s acked=%v: %s\n", i, m.Conn, m.Msg.OptChunk, m.Acked, strings.Join(st, " "))
			if b.Len() > 5000 {
				b.WriteString("  ...\n")
				return b.String()
			}
		}
	}
	return b.String()
}

func droppedChunks(m vh.Metrics, output int) float64 {
	return m.Sum("slogagent_process_buffer_dropped_chunks_total", fmt.Sprintf("output=out%d", output))
}

// checkEvent compares a decoded event with the expectation derived from its stamp.
func (o *Outcome) checkEvent(where string, ev *vh.ForwardEvent) *vh.Finding {
	st := stampOf(ev.Fields["log"])
	exp := o.Expected[st]
	if exp == nil {
		return vh.Fail("e2e:unknown-record", "%s: record with log %.60q does not correspond to any record that was sent", where, ev.Fields["log"])
	}
	if exp.Kind != 0 {
		return vh.Fail("e2e:filtered-record-delivered", "%s: record %s should have been dropped (kind %d)", where, st, exp.Kind)
	}
	if ev.Fields["log"] != exp.Log || ev.Env["app"] != exp.App || ev.Env["host"] != exp.Host || ev.Fields["level"] != exp.Level || ev.Fields["source"] != exp.Source {
		return vh.Fail("e2e:record-altered", "%s: record %s differs from what was sent: log %.50q/%.50q app %q/%q host %q/%q level %q/%q source %q/%q", where, st,
			ev.Fields["log"], exp.Log, ev.Env["app"], exp.App, ev.Env["host"], exp.Host, ev.Fields["level"], exp.Level, ev.Fields["source"], exp.Source)
	}
	if int(ev.Sec) != 1577836800+exp.Seq%60 {
		return vh.Fail("e2e:record-altered", "%s: record %s has time %d, expected %d", where, st, ev.Sec, 1577836800+exp.Seq%60)
	}
	return nil
}

// CheckC01: at-least-once delivery / nothing lost or altered at any stop.
func CheckC01(o *Outcome) *vh.Finding {
	if len(o.OrphansAtStart) > 0 {
		return vh.Fail("e2e:queue-not-reattached-at-start", "queue directories held chunk files when the agent started and no pipeline was created for them, so their chunks are not sent however healthy the upstream is (until a new record of the same key set happens to arrive): %v\n%s", o.OrphansAtStart, o.describe())
	}
	if len(o.ServerErrs) > 0 {
		return vh.Fail("e2e:malformed-message-sent", "the upstream received undecodable messages: %v", o.ServerErrs)
	}
	nOut := len(o.Sc.Modes)
	for i := 0; i < nOut && i < len(o.Servers); i++ {
		for _, m := range o.Servers[i] {
			for _, ev := range m.Msg.Events {
				if f := o.checkEvent(fmt.Sprintf("output %d, chunk %s at the upstream", i, m.Msg.OptChunk), ev); f != nil {
					return f
				}
			}
			if int(m.Msg.OptSize) != len(m.Msg.Events) {
				return vh.Fail("e2e:chunk-size-option", "output %d chunk %s: option.size %d but %d entries", i, m.Msg.OptChunk, m.Msg.OptSize, len(m.Msg.Events))
			}
		}
	}
	droppedSoFar := make([]float64, nOut)
	var prevDisk []map[string]*vh.ForwardMessage
	for _, so := range o.Stops {
		if len(so.DiskErrors) > 0 {
			return vh.Fail("e2e:undecodable-chunk-file", "after stop %d: %v", so.Gen, so.DiskErrors)
		}
		for i := 0; i < nOut; i++ {
			droppedSoFar[i] += droppedChunks(so.Metrics, i)
			onDisk := map[string]bool{}
			for name, msg := range so.Disk[i] {
				for _, ev := range msg.Events {
					if f := o.checkEvent(fmt.Sprintf("output %d, chunk file %s after stop %d", i, name, so.Gen), ev); f != nil {
						return f
					}
					onDisk[stampOf(ev.Fields["log"])] = true
				}
			}
			var missing []string
			for st, exp := range o.Expected {
				if exp.Must && exp.Kind == 0 && exp.Gen <= so.Gen && !so.AckedStamps[i][st] && !onDisk[st] {
					missing = append(missing, st)
				}
			}
			sort.Strings(missing)
			if len(missing) > 0 && !(o.overflowPossible() && droppedSoFar[i] > 0) {
				return vh.Fail("e2e:record-lost", "after stop %d, output %d: %d records that the agent had read are neither acknowledged by the upstream nor in the queue directory (dropped_chunks_total so far: %v): %v\n%s", so.Gen, i, len(missing), droppedSoFar[i], missing[:min(8, len(missing))], o.describe())
			}
			// no chunk file disappears before its ACK
			if prevDisk != nil {
				for name := range prevDisk[i] {
					if _, still := so.Disk[i][name]; !still {
						id := name[strings.LastIndexByte(name, '/')+1:]
						if so.AckedChunks[i][id] == 0 && !(o.overflowPossible() && droppedSoFar[i] > 0) {
							return vh.Fail("e2e:file-removed-before-ack", "output %d: chunk file %s was on disk after the previous stop, is gone after stop %d, and the upstream never acknowledged it\n%s", i, name, so.Gen, o.describe())
						}
					}
				}
			}
		}
		prevDisk = so.Disk
	}
	return nil
}

// overflowPossible: may the disk quota have been reached in this scenario, so that counted discards are legitimate?
// With the ample quota: never. With the tiny quota: always. With a quota of a few dozen chunks (drain-cycles family):
// not if the upstream's log shows that every burst had been acknowledged completely before the client queued the first
// record of the next burst - the queue directory was empty then and a single burst is smaller than the quota. If a
// timing slip prevents that proof, discards are tolerated as under the tiny quota.
func (o *Outcome) overflowPossible() bool {
	if o.Sc.TinyQuota {
		return true
	}
	if o.Sc.QuotaChunks == 0 {
		return false
	}
	return !o.DrainedBetweenBursts()
}

// DrainedBetweenBursts: drain-cycles family, see overflowPossible.
func (o *Outcome) DrainedBetweenBursts() bool {
	if o.Sc.Family != "drain-cycles" || len(o.Servers) == 0 {
		return false
	}
	ackAt := map[string]time.Time{}
	for _, m := range o.Servers[0] {
		if !m.Acked {
			continue
		}
		for _, ev := range m.Msg.Events {
			st := stampOf(ev.Fields["log"])
			if t, ok := ackAt[st]; !ok || m.AckAt.Before(t) {
				ackAt[st] = m.AckAt
			}
		}
	}
	// bursts of generation 0, connection 0 by sequence number
	recs := o.Sc.Gens[0].Conns[0].Recs
	burstOf := make([]int, len(recs))
	b := 0
	for i, r := range recs {
		if i > 0 && r.Pause > 0 {
			b++
		}
		burstOf[i] = b
	}
	lastAck := make([]time.Time, b+1)
	firstQueued := make([]time.Time, b+1)
	seen := 0
	for _, e := range o.Expected {
		if e.Gen != 0 || e.Conn != 0 || e.Seq >= len(recs) {
			continue
		}
		seen++
		bi := burstOf[e.Seq]
		if firstQueued[bi].IsZero() || e.QueuedAt.Before(firstQueued[bi]) {
			firstQueued[bi] = e.QueuedAt
		}
		if bi < b {
			t, ok := ackAt[e.Stamp]
			if !ok {
				return false // a record of an earlier burst was never acknowledged in time
			}
			if t.After(lastAck[bi]) {
				lastAck[bi] = t
			}
		}
	}
	if seen != len(recs) {
		return false
	}
	for bi := 0; bi < b; bi++ {
		if firstQueued[bi+1].IsZero() || !lastAck[bi].Before(firstQueued[bi+1]) {
			return false
		}
	}
	return true
}

func pipelineOf(o *Outcome, ev *vh.ForwardEvent) string {
	if o.Sc.KeyHost {
		return ev.Env["app"] + "." + ev.Env["host"]
	}
	return ev.Env["app"]
}

// CheckC05: arrival order per connection and key set; creation order per upstream connection.
func CheckC05(o *Outcome) *vh.Finding {
	anyDropped := false
	for _, so := range o.Stops {
		for i := range o.Sc.Modes {
			if droppedChunks(so.Metrics, i) > 0 {
				anyDropped = true
			}
		}
	}
	for i, msgs := range o.Servers {
		seen := map[string]bool{}
		lastSeq := map[string]int{}
		everReceived := map[string]map[string]bool{} // pipeline -> chunk IDs received so far (any connection)
		acked := map[string]bool{}
		// order of events on this server: the slice is in arrival order (instances are sequential)
		type key struct {
			conn int
			pipe string
		}
		lastChunkOnConn := map[key]string{}
		onConn := map[key]map[string]bool{}
		connBase := 0
		prevConn := -1
		_ = connBase
		_ = prevConn
		for mi, m := range msgs {
			if len(m.Msg.Events) == 0 {
				continue
			}
			pipe := pipelineOf(o, m.Msg.Events[0])
			k := key{m.Conn, pipe}
			_ = mi
			id := m.Msg.OptChunk
			if prev := lastChunkOnConn[k]; prev != "" && !(prev < id) {
				return vh.Fail("e2e:chunk-order-on-connection", "output %d: on one upstream connection chunk %s of pipeline %s was transmitted after %s\n%s", i, id, pipe, prev, o.describe())
			}
			lastChunkOnConn[k] = id
			if onConn[k] == nil {
				onConn[k] = map[string]bool{}
			}
			if !o.Sc.TinyQuota && !anyDropped {
				for x := range everReceived[pipe] {
					if x < id && !acked[x] && !onConn[k][x] {
						return vh.Fail("e2e:older-chunk-skipped", "output %d: chunk %s of pipeline %s was transmitted on a connection on which the older, still unacknowledged chunk %s had not been retransmitted first\n%s", i, id, pipe, x, o.describe())
					}
				}
			}
			onConn[k][id] = true
			if everReceived[pipe] == nil {
				everReceived[pipe] = map[string]bool{}
			}
			everReceived[pipe][id] = true
			prevSeqInMsg := map[string]int{}
			for _, ev := range m.Msg.Events {
				st := stampOf(ev.Fields["log"])
				exp := o.Expected[st]
				if exp == nil {
					continue // C01 reports unknown records
				}
				stream := fmt.Sprintf("g%dc%dk%s", exp.Gen, exp.Conn, exp.Key)
				if p, ok := prevSeqInMsg[stream]; ok && exp.Seq <= p {
					return vh.Fail("e2e:order-inside-chunk", "output %d chunk %s: record %s comes after seq %d of the same stream", i, id, st, p)
				}
				prevSeqInMsg[stream] = exp.Seq
				if seen[st] {
					continue
				}
				seen[st] = true
				if last, ok := lastSeq[stream]; ok && exp.Seq < last {
					return vh.Fail("e2e:first-delivery-order", "output %d: record %s was first delivered after seq %d of the same connection and key set\n%s", i, st, last, o.describe())
				}
				lastSeq[stream] = exp.Seq
			}
			if m.Acked {
				acked[id] = true
			}
		}
	}
	return nil
}

// instanceOf distinguishes connections of successive server instances (connection indexes restart at 0): instances are
// sequential, so a decreasing arrival index marks a new instance.
func instanceOf(msgs []*vh.RecvMessage, upto int) int {
	inst := 0
	for i := 1; i <= upto; i++ {
		if msgs[i].Arrival < msgs[i-1].Arrival {
			inst++
		}
	}
	return inst
}

// CheckC18: shutdown completes within the bound derived from the configured timeouts; nothing is left only in memory.
func CheckC18(o *Outcome) *vh.Finding {
	bound := float64(StopBound().Milliseconds())
	for _, so := range o.Stops {
		if so.StopMs > bound {
			return vh.Fail("e2e:stop-too-slow", "stop %d took %.0f ms, bound %.0f ms (upstream at stop: %v)", so.Gen, so.StopMs, bound, so.UpstreamAtStop)
		}
	}
	if f := CheckC01(o); f != nil && (f.Key == "e2e:record-lost" || f.Key == "e2e:undecodable-chunk-file") {
		f.Key = strings.Replace(f.Key, "e2e:", "e2e:stop-", 1)
		return f
	}
	return nil
}

// CheckC19: metrics balance after each stop.
func CheckC19(o *Outcome) *vh.Finding {
	nOut := len(o.Sc.Modes)
	var prevDisk []map[string]*vh.ForwardMessage
	prevAcked := make([]int, nOut)
	for _, so := range o.Stops {
		m := so.Metrics
		if so.MetricsErr != "" {
			return vh.Fail("metrics:export-fails", "stop %d: the agent's metric gatherer returns an error (the /metrics endpoint answers 500 and no counter can be read): %.600s", so.Gen, so.MetricsErr)
		}
		inPass, inDrop := m.Sum("slogagent_input_passed_records_total"), m.Sum("slogagent_input_dropped_records_total")
		inPassB, inDropB := m.Sum("slogagent_input_passed_record_bytes_total"), m.Sum("slogagent_input_dropped_record_bytes_total")
		if so.InputDrained && so.OpenLines == 0 {
			// A non-record line at the start of a connection reaches the parser (and is counted as dropped) only if the next
			// record arrives before the periodic flush; otherwise the reader discards it. Its hand-over is not determinate,
			// so it is allowed either way (20 bytes each).
			garbage := 0
			for _, c := range o.Sc.Gens[so.Gen].Conns {
				if c.Garbage && c.Close == "graceful" {
					garbage++
				}
			}
			gotN, gotB := int(inPass+inDrop), int(inPassB+inDropB)
			if gotN > so.SentLines || gotN < so.SentLines-garbage || gotB > so.SentBytes || gotB < so.SentBytes-20*garbage || (so.SentLines-gotN)*20 != so.SentBytes-gotB {
				return vh.Fail("metrics:input-balance", "stop %d: %d messages (%d bytes, of which %d non-record first lines) were sent on connections that were closed before the stop, input passed+dropped = %v+%v records, %v+%v bytes", so.Gen, so.SentLines, so.SentBytes, garbage, inPass, inDrop, inPassB, inDropB)
			}
			wantDrop, wantFiltered, wantXFiltered := 0, 0, 0
			wantFilteredBySource := map[string]int{}
			for _, e := range o.Expected {
				if e.Gen == so.Gen && e.Must {
					if e.Kind == 2 {
						wantDrop++
					}
					if e.Kind == 3 {
						wantXFiltered++
					}
					if e.Kind == 1 {
						wantFiltered++
						wantFilteredBySource[e.Source+"/"+e.App]++
					}
				}
			}
			// records dropped by an extraction-stage rule never reach a pipeline: for both balances to hold they have to be
			// counted as dropped at the input (the property does not say more than the two equations)
			if int(inDrop) < wantDrop || int(inDrop) > wantDrop+garbage+wantXFiltered {
				return vh.Fail("metrics:input-dropped", "stop %d: %d malformed + %d non-record lines + %d records dropped by the extraction-stage rule were sent, input dropped = %v", so.Gen, wantDrop, garbage, wantXFiltered, inDrop)
			}
			if got := m.Sum("slogagent_input_labelled_records_total", "label=xfiltered"); int(got) != wantXFiltered {
				return vh.Fail("metrics:label-count", "stop %d: %d records matched the extraction-stage drop rule, labelled counter 'xfiltered' = %v", so.Gen, wantXFiltered, got)
			}
			if got := m.Sum("slogagent_process_labelled_records_total", "label=filtered"); int(got) != wantFiltered {
				return vh.Fail("metrics:label-count", "stop %d: %d records matched the drop rule, labelled counter 'filtered' = %v", so.Gen, wantFiltered, got)
			}
			for k, want := range wantFilteredBySource {
				parts := strings.SplitN(k, "/", 2)
				if got := m.Sum("slogagent_process_labelled_records_total", "label=filtered", "key_source="+parts[0], "key_app="+labelValue(parts[1])); int(got) != want {
					return vh.Fail("metrics:label-attribution", "stop %d: %d dropped records had source=%s app=%s, the counter with those label values shows %v", so.Gen, want, parts[0], parts[1], got)
				}
			}
			if got := m.Sum("slogagent_process_dropped_records_total"); int(got) != wantFiltered {
				return vh.Fail("metrics:process-dropped", "stop %d: %d records were filtered, process dropped = %v", so.Gen, wantFiltered, got)
			}
		}
		procPass, procDrop := m.Sum("slogagent_process_passed_records_total"), m.Sum("slogagent_process_dropped_records_total")
		if procPass+procDrop != inPass {
			return vh.Fail("metrics:process-balance", "stop %d: input passed %v but pipelines passed %v + dropped %v", so.Gen, inPass, procPass, procDrop)
		}
		// the same equation in bytes: both sides add up the input length of the same records
		procPassB, procDropB := m.Sum("slogagent_process_passed_record_bytes_total"), m.Sum("slogagent_process_dropped_record_bytes_total")
		if procPassB+procDropB != inPassB {
			return vh.Fail("metrics:process-balance-bytes", "stop %d: input passed %v bytes (%v records) but pipelines passed %v + dropped %v bytes (%v + %v records)", so.Gen, inPassB, inPass, procPassB, procDropB, procPass, procDrop)
		}
		for i := 0; i < nOut; i++ {
			lbl := fmt.Sprintf("output=out%d", i)
			input := m.Sum("slogagent_process_buffer_input_chunks_total", lbl)
			consumed := m.Sum("slogagent_process_buffer_consumed_chunks_total", lbl)
			leftover := m.Sum("slogagent_process_buffer_leftover_chunks_total", lbl)
			dropped := m.Sum("slogagent_process_buffer_dropped_chunks_total", lbl)
			pending := m.Sum("slogagent_process_buffer_pending_chunks", lbl)
			created := m.Sum("slogagent_process_chunks_total", lbl)
			files := float64(len(so.Disk[i]))
			recovered := 0.0
			if prevDisk != nil {
				recovered = float64(len(prevDisk[i]))
			}
			if input != created+recovered {
				return vh.Fail("metrics:chunk-input", "stop %d output %d: buffer input %v != chunks created %v + recovered from disk %v", so.Gen, i, input, created, recovered)
			}
			if input != consumed+dropped+files {
				return vh.Fail("metrics:chunk-balance", "stop %d output %d: accepted %v != delivered %v + dropped %v + left on disk %v (leftover counter %v, pending gauge %v)", so.Gen, i, input, consumed, dropped, files, leftover, pending)
			}
			if input != consumed+leftover+dropped+pending {
				return vh.Fail("metrics:chunk-counters", "stop %d output %d: accepted %v != delivered %v + leftover %v + dropped %v + still pending %v", so.Gen, i, input, consumed, leftover, dropped, pending)
			}
			// after the stop nothing waits for an ACK any more: every chunk that was forwarded is acknowledged or was taken
			// back into the leftovers (which were handed to the buffer at the stop)
			if pa := m.Sum("slogagent_process_output_queued_chunks", lbl, "type=pendingAck"); pa != 0 {
				return vh.Fail("metrics:pending-ack-gauge", "stop %d output %d: output_queued_chunks{type=pendingAck} = %v after the agent has stopped (nothing can be waiting for an ACK)", so.Gen, i, pa)
			}
			if lo := m.Sum("slogagent_process_output_queued_chunks", lbl, "type=leftover"); lo != 0 {
				return vh.Fail("metrics:leftover-gauge", "stop %d output %d: output_queued_chunks{type=leftover} = %v after the agent has stopped (the client's leftovers were handed back to the buffer: %v counted there)", so.Gen, i, lo, leftover)
			}
			attempts := m.Sum("slogagent_process_output_forward_attempts_total", lbl)
			forwarded := m.Sum("slogagent_process_output_forwarded_chunks_total", lbl)
			ackedM := m.Sum("slogagent_process_output_acknowledged_chunks_total", lbl)
			if !(ackedM <= forwarded && forwarded <= attempts) {
				return vh.Fail("metrics:forward-order", "stop %d output %d: acknowledged %v <= forwarded %v <= attempts %v does not hold", so.Gen, i, ackedM, forwarded, attempts)
			}
			if ackedM != consumed {
				return vh.Fail("metrics:acked-vs-consumed", "stop %d output %d: acknowledged %v != consumed %v", so.Gen, i, ackedM, consumed)
			}
			ackedByServer := 0
			for _, n := range so.AckedChunks[i] {
				ackedByServer += n
			}
			if int(ackedM) > ackedByServer-prevAcked[i] {
				return vh.Fail("metrics:acked-more-than-upstream", "stop %d output %d: acknowledged counter %v but the upstream sent only %d ACKs during this generation", so.Gen, i, ackedM, ackedByServer-prevAcked[i])
			}
			prevAcked[i] = ackedByServer
		}
		prevDisk = so.Disk
	}
	return nil
}

// CheckC17: reloads at arbitrary moments of the traffic. Nothing is lost or altered (C01's oracle over the whole
// scenario), every reload is counted once under the right status, a failed reload has no effect, a successful one is in
// effect for every connection opened after it returned, and the routing (tag = key set) never changes.
func CheckC17(o *Outcome) *vh.Finding {
	if f := CheckC01(o); f != nil {
		return f
	}
	var firstValidEnd time.Time
	anyValid, firstValidGen := false, 0
	for _, r := range o.Reloads {
		wantOK, wantFailed := 0.0, 1.0
		if r.Variant == "valid" {
			wantOK, wantFailed = 1, 0
		}
		if r.Variant == "moreoutputs" {
			// the active configuration plus one more output: the property is satisfied by a refusal (old configuration goes
			// on) as well as by a successful reload (every record still reaches the outputs it had) - but by one of them
			if n := r.OK + r.Failed; n < 1 || n > float64(max(1, r.Burst)) {
				return vh.Fail("reload:counter", "generation %d: a reload with one more output changed slogagent_reloads_total by success=%v failure=%v", r.Gen, r.OK, r.Failed)
			}
			continue
		}
		if r.Burst > 1 {
			// several signals for one scheduled reload: signals that arrive while a reload runs are coalesced (at most one
			// more reload is queued), and a queued reload may read the configuration file before or after the harness has
			// put the active one back - between 1 and Burst reloads, the first with the expected status
			n := r.OK + r.Failed
			if n < 1 || n > float64(r.Burst) || (r.Variant == "valid" && r.Failed > 0) || (r.Variant != "valid" && r.Failed < 1) {
				return vh.Fail("reload:counter", "generation %d: %d SIGHUPs for a reload with the %s configuration changed slogagent_reloads_total by success=%v failure=%v", r.Gen, r.Burst, r.Variant, r.OK, r.Failed)
			}
		} else if r.OK != wantOK || r.Failed != wantFailed {
			return vh.Fail("reload:counter", "generation %d: a reload with the %s configuration changed slogagent_reloads_total by success=%v failure=%v (expected %v/%v)", r.Gen, r.Variant, r.OK, r.Failed, wantOK, wantFailed)
		}
		if len(r.Orphans) > 0 {
			return vh.Fail("reload:queue-not-taken-over", "generation %d: right after a successful reload returned, the queue directories %v held chunk files but the new pipeline set has no pipeline for their key sets: the chunks saved by the old pipelines are not taken over (they wait for new traffic of the same key set or a restart)", r.Gen, r.Orphans)
		}
		if r.Variant == "valid" && !anyValid {
			anyValid, firstValidEnd, firstValidGen = true, r.End, r.Gen
		}
	}
	check := func(where string, tag string, ev *vh.ForwardEvent) *vh.Finding {
		st := stampOf(ev.Fields["log"])
		exp := o.Expected[st]
		if exp == nil {
			return nil // reported by C01's oracle
		}
		if tag != "e2e."+exp.App {
			return vh.Fail("reload:tag-changed", "%s: record %s of app %s was delivered under tag %q (the incompatible configuration must never take effect)", where, st, exp.App, tag)
		}
		added, has := ev.Fields["added"]
		if has && added != "reloaded" {
			return vh.Fail("reload:field-altered", "%s: record %s has added=%q", where, st, added)
		}
		if has && (!anyValid || exp.Gen < firstValidGen) {
			return vh.Fail("reload:failed-reload-had-effect", "%s: record %s carries the field added by the new configuration although no reload had succeeded by its generation (reloads: %s)", where, st, o.reloadSummary())
		}
		isCls := exp.Kind == 0 && exp.Seq%3 == 0 // line() marks every third record of a stream with the kind "cls"
		if has && !isCls {
			return vh.Fail("reload:field-leaked-from-another-record", "%s: record %s does not have the kind that the new configuration's rule matches, but carries its field added=%q: a value of another record (the appended schema field is not cleared when a record object is recycled)", where, st, added)
		}
		if !has && isCls && anyValid && exp.DialAt.After(firstValidEnd) {
			return vh.Fail("reload:new-config-not-in-effect", "%s: record %s was sent on a connection opened %v after a successful reload had returned, but was processed without the new configuration's transform (reloads: %s)", where, st, exp.DialAt.Sub(firstValidEnd), o.reloadSummary())
		}
		return nil
	}
	for i, msgs := range o.Servers {
		for _, m := range msgs {
			for _, ev := range m.Msg.Events {
				if f := check(fmt.Sprintf("output %d, chunk %s at the upstream", i, m.Msg.OptChunk), m.Msg.Tag, ev); f != nil {
					return f
				}
			}
		}
	}
	for _, so := range o.Stops {
		for i := range so.Disk {
			for name, msg := range so.Disk[i] {
				for _, ev := range msg.Events {
					if f := check(fmt.Sprintf("output %d, chunk file %s after stop %d", i, name, so.Gen), msg.Tag, ev); f != nil {
						return f
					}
				}
			}
		}
	}
	return nil
}

func (o *Outcome) reloadSummary() string {
	var l []string
	for _, r := range o.Reloads {
		l = append(l, fmt.Sprintf("gen %d %s (%.1f ms)", r.Gen, r.Variant, float64(r.End.Sub(r.Start).Microseconds())/1000))
	}
	return strings.Join(l, ", ")
}
