package e2e

import (
	"fmt"
	"os"
	"sort"
	"testing"

	"github.com/relex/gotils/logger"
	"verifharness/vh"
)

func TestProbe(t *testing.T) {
	if os.Getenv("VERIF_PROBE") == "" {
		t.Skip()
	}
	vh.QuietLogs(logger.ErrorLevel)
	sc := Scenario{KeyHost: true, Modes: []string{"Forward", "CompressedPackedForward"}, MemWindow: 4, ChunkBytes: 600, BatchLogs: 4,
		Gens: []Generation{
			{Conns: []ConnSpec{{Recs: []Rec{{App: 0, Host: 0, Size: 50}, {App: 0, Host: 1, Size: 300}, {App: 1, Host: 0, Size: 10, Kind: 1}, {App: 0, Host: 0, Size: 400}, {App: 0, Host: 0, Size: 400, Kind: 2}, {App: 0, Host: 0, Size: 400}}, Close: "graceful", Garbage: true}},
				Upstream: [][]vh.UpstreamAttempt{{{Kind: "neverack"}}, {{Kind: "healthy"}}}, StopAfter: 100},
			{Conns: nil, StopAfter: 300},
		}}
	out := Run(sc)
	if out.Crash != nil {
		t.Fatal(out.Crash.Msg)
	}
	for _, so := range out.Stops {
		fmt.Printf("gen %d stop %.1fms drained=%v sent=%d disk=%v errs=%v\n", so.Gen, so.StopMs, so.InputDrained, so.SentLines, len(so.Disk[0]), so.DiskErrors)
		var keys []string
		for k := range so.Metrics {
			if len(k) > 9 && k[:9] == "slogagent" {
				keys = append(keys, k)
			}
		}
		sort.Strings(keys)
		for _, k := range keys {
			if so.Metrics[k] != 0 {
				fmt.Printf("   %s = %v\n", k, so.Metrics[k])
			}
		}
	}
	for i, s := range out.Servers {
		for _, m := range s {
			fmt.Printf("server %d conn %d chunk %s tag %s events %d acked %v\n", i, m.Conn, m.Msg.OptChunk, m.Msg.Tag, len(m.Msg.Events), m.Acked)
		}
	}
	fmt.Println(out.Notes, out.ServerErrs, logsTail())
}

func logsTail() string {
	s := vh.Logs.Take()
	if len(s) > 3000 {
		s = s[len(s)-3000:]
	}
	return s
}
