package e2e

// C17, end-to-end layer: configuration reloads (what SIGHUP triggers; hook H4 calls the handler's reload()) at generated
// moments of the traffic against the real agent started through run.Reloader.

import (
	"fmt"
	"os"
	"testing"

	"pgregory.net/rapid"

	"verifharness/vh"
)

// genReloadBacklogScenario: a reload while a long backlog of chunk files waits and traffic keeps flowing. The upstream
// refuses connections until some time after the reload and is healthy from then on WITHOUT a restart in between, so what
// it receives is the order of the new pipeline's queue: the recovered backlog first, then what was accepted afterwards.
func genReloadBacklogScenario(t *rapid.T) Scenario {
	var sc Scenario
	sc.Family = "reload-backlog"
	sc.Reloader = true
	sc.Modes = []string{"Forward"}
	sc.MemWindow = 16
	sc.ChunkBytes = 300
	sc.BatchLogs = 8
	var gen Generation
	gen.Conns = []ConnSpec{
		{Close: "graceful", Recs: []Rec{{Size: 250}}, Bulk: rapid.IntRange(800, 2500).Draw(t, "backlog"), BulkSize: 250},
		{Close: "graceful", Recs: []Rec{{Size: 250}}, Bulk: rapid.IntRange(150, 400).Draw(t, "trickle"), BulkSize: 250, BulkPause: 1, StartMs: 5},
	}
	var ups []vh.UpstreamAttempt
	for i := rapid.IntRange(25, 70).Draw(t, "refusals"); i > 0; i-- {
		ups = append(ups, vh.UpstreamAttempt{Kind: "refuse"})
	}
	gen.Upstream = [][]vh.UpstreamAttempt{ups}
	gen.Down = []bool{false}
	gen.Reloads = []ReloadSpec{{AtMs: rapid.IntRange(60, 250).Draw(t, "atMs"), Variant: "valid"}}
	gen.StopAfter = 3000
	sc.Gens = []Generation{gen, {StopAfter: 3000, Upstream: [][]vh.UpstreamAttempt{nil}, Down: []bool{false}}}
	return sc
}

func genReloadScenario(t *rapid.T) Scenario {
	if rapid.IntRange(0, 5).Draw(t, "backlogFamily") == 0 {
		return genReloadBacklogScenario(t)
	}
	var sc Scenario
	sc.Family = "reload"
	sc.Reloader = true
	sc.KeyHost = rapid.Bool().Draw(t, "keyHost")
	nOut := rapid.SampledFrom([]int{1, 1, 2}).Draw(t, "nout")
	for i := 0; i < nOut; i++ {
		sc.Modes = append(sc.Modes, rapid.SampledFrom([]string{"Forward", "PackedForward", "CompressedPackedForward"}).Draw(t, "mode"))
	}
	sc.MemWindow = rapid.SampledFrom([]int{2, 4, 16}).Draw(t, "memWindow")
	sc.ChunkBytes = rapid.SampledFrom([]int{300, 700, 2000}).Draw(t, "chunkBytes")
	sc.BatchLogs = rapid.SampledFrom([]int{2, 4, 8, 500}).Draw(t, "batchLogs")
	ngen := rapid.IntRange(1, 2).Draw(t, "ngens")
	for g := 0; g < ngen; g++ {
		var gen Generation
		nconn := rapid.IntRange(1, 5).Draw(t, "nconns")
		span := 0
		for c := 0; c < nconn; c++ {
			cs := genConn(t, 30)
			// spread the traffic over time so that reloads fall between reads, opens and closes
			for i := range cs.Recs {
				if cs.Recs[i].Pause == 0 && rapid.IntRange(0, 3).Draw(t, "morePause") == 0 {
					cs.Recs[i].Pause = rapid.IntRange(1, 12).Draw(t, "pauseMs")
				}
			}
			cs.StartMs = rapid.SampledFrom([]int{0, 0, 3, 10, 25, 60}).Draw(t, "startMs")
			total := cs.StartMs
			for _, r := range cs.Recs {
				total += r.Pause
			}
			span = max(span, total)
			gen.Conns = append(gen.Conns, cs)
		}
		for o := 0; o < nOut; o++ {
			if rapid.IntRange(0, 2).Draw(t, "faulty") == 0 {
				gen.Upstream = append(gen.Upstream, genUpstream(t, "C17"))
			} else {
				gen.Upstream = append(gen.Upstream, nil)
			}
			gen.Down = append(gen.Down, rapid.IntRange(0, 7).Draw(t, "down") == 0)
		}
		nrel := rapid.IntRange(1, 3).Draw(t, "nreloads")
		at := 0
		for r := 0; r < nrel; r++ {
			at += rapid.IntRange(0, max(span, 20)).Draw(t, "atMs")
			gen.Reloads = append(gen.Reloads, ReloadSpec{AtMs: at, Variant: rapid.SampledFrom([]string{"valid", "valid", "valid", "valid", "valid", "valid", "invalid", "incompatible", "shifted", "moreoutputs", "maxfields", "inputs", "orchtype", "renamed", "metrickey-overlap", "metrickey-duplicate", "metrickey-unknown"}).Draw(t, "variant")})
		}
		gen.StopAfter = rapid.SampledFrom([]int{0, 5, 30, 120}).Draw(t, "stopAfter")
		if rapid.IntRange(0, 2).Draw(t, "reloadAtStop") == 0 {
			// one more reload request that races with the stop request (SIGHUP shortly before / after SIGTERM)
			gen.ReloadAtStopUs = rapid.SampledFrom([]int{-3000, -1000, -500, -200, -50, 1, 50, 200, 500, 1000, 3000}).Draw(t, "reloadAtStopUs")
		}
		sc.Gens = append(sc.Gens, gen)
	}
	final := Generation{StopAfter: 1500}
	for o := 0; o < nOut; o++ {
		final.Upstream = append(final.Upstream, nil)
		final.Down = append(final.Down, false)
	}
	sc.Gens = append(sc.Gens, final)
	return sc
}

func runReload(sc Scenario) (res vh.Result) {
	vh.Logs.Take()
	o := Run(sc)
	if o.Crash != nil {
		res.Violation, res.NonTrivial = o.Crash, true
		return res
	}
	if o.Hang != "" {
		res.Violation, res.NonTrivial = vh.Fail("e2e:scenario-hang", "the scenario did not finish within %v\n%s", ScenarioBudget, o.Hang), true
		return res
	}
	_, res.Classes = classify(sc, o)
	valid, failed, during, queued, takeover := false, false, false, false, false
	for _, r := range o.Reloads {
		if r.QueuesWithFiles > 0 {
			takeover = true
		}
		if r.Variant == "moreoutputs" {
			res.Classes = append(res.Classes, fmt.Sprintf("reload-with-one-more-output(success=%v)", r.OK > 0))
		}
		if r.Variant == "valid" {
			valid = true
		} else {
			failed = true
		}
		for _, e := range o.Expected {
			if e.Gen == r.Gen && e.DialAt.Before(r.Start) {
				during = true // a connection opened before this reload (it may have been closed again: see open-conn class)
			}
		}
	}
	for _, so := range o.Stops {
		for _, d := range so.Disk {
			if len(d) > 0 {
				queued = true
			}
		}
	}
	add := func(b bool, s string) {
		if b {
			res.Classes = append(res.Classes, s)
		}
	}
	add(valid, "successful-reload")
	add(failed, "rejected-reload")
	add(during, "reload-after-connections-opened")
	add(queued, "chunks-queued-at-a-stop")
	add(takeover, "queued-chunks-to-take-over-at-a-successful-reload")
	add(len(o.Reloads) > 1, "several-reloads")
	for _, g := range sc.Gens {
		if g.ReloadAtStopUs != 0 {
			add(true, "reload-request-racing-with-the-stop-request")
			break
		}
	}
	res.NonTrivial = len(o.Reloads) > 0 && during
	agentErrors := vh.Logs.Take()
	if os.Getenv("VERIF_PROPERTY") == "C18" {
		// ./check C18 runs this layer for the stops that coincide with a reload request: bounded stop, nothing only in memory
		res.Violation = CheckC18(o)
	} else {
		res.Violation = CheckC17(o)
	}
	if res.Violation == nil && os.Getenv("VERIF_PROPERTY") == "C05" {
		res.Violation = CheckC05(o) // the ordering oracle on the same scenarios (./check C05 runs this layer as well)
	}
	if sc.Family == "reload-backlog" {
		res.Classes = append(res.Classes, "reload-with-a-long-backlog-and-traffic-flowing(family)")
	}
	withholdIfChannelTimeoutExpired(&res, agentErrors)
	if res.Violation != nil && agentErrors != "" {
		if len(agentErrors) > 3000 {
			agentErrors = agentErrors[:3000]
		}
		res.Violation.Msg += "\nerror-level log output of the agent during this scenario:\n" + agentErrors
	}
	return res
}

func TestE2EReload(t *testing.T) {
	vh.Run(t, vh.Spec[Scenario]{
		Name: "e2e-reload", Gen: genReloadScenario, Run: runReload, Quick: 10, Thorough: 250, Journal: true, ShrinkSeconds: 30,
		Rule: "the real agent started through run.Reloader (TCP listener, ReloadableOrchestrator, pipelines, hybrid buffers, Forward clients; scaled defs) with 1-2 generations of 1-5 staggered client connections x 1-30 stamped records with pauses, faulty or healthy upstreams, and 1-3 reloads per generation at generated moments of the traffic (hook H4 = the SIGHUP handler's reload()) with a valid (extra transform + schema field), an invalid or an incompatible (other orchestration keys, schema fields moved by a new field in front, another schema/maxFields, a changed inputs section, another orchestration type, a renamed input field, metric keys that overlap the orchestration keys, repeat or name no field) new configuration file; in a third of the generations one more reload request is triggered 3 ms before to 3 ms after the stop request; oracle = C01's no-loss/no-alteration oracle over the whole scenario, every reload counted once under the right status, no effect of a rejected reload (no record carries the new transform's field, tags unchanged), the new configuration in effect for every connection opened after a successful reload returned, and every queue directory that holds chunk files right after a successful reload has a pipeline in the new pipeline set (its buffer gauges exist); non-trivial = at least one reload after a connection was opened",
	})
}
