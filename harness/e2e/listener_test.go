package e2e

// C07 layer B: hostile byte streams against the real TCP listener of the real agent running the sample configuration
// (all extractions and transforms, both outputs), with a recording consumer instead of the network clients.

import (
	"bytes"
	"compress/gzip"
	"encoding/json"
	"fmt"
	"io"
	"net"
	"os"
	"path/filepath"
	"strings"
	"testing"
	"time"

	"github.com/relex/gotils/logger"
	"github.com/relex/slog-agent/defs"
	"github.com/relex/slog-agent/run"
	"pgregory.net/rapid"

	"verifharness/vh"
)

type HostileConn struct {
	Bad     [][]vh.Seg `json:"bad"`     // hostile inputs, each followed by a newline
	Frag    int        `json:"frag"`    // write in fragments of this many bytes (0 = whole)
	Abrupt  bool       `json:"abrupt"`  // reset the connection in the middle of the last line instead of closing gracefully
	PauseMs int        `json:"pauseMs"` // pause between sentinel A and the hostile bytes (lets the periodic flush run)
	Prelude []byte     `json:"prelude,omitempty"` // bytes sent before sentinel A: empty lines, blanks, CR LF (the very start of the connection's buffer)
	BeforeC []byte     `json:"beforeC,omitempty"` // the same in front of sentinel C, i.e. at the start of the buffer after a periodic flush
}

type HostileCase struct {
	MaxMsg  int  `json:"maxMsg"`
	PoolAll bool `json:"poolAll,omitempty"` // the pooling threshold (a defs variable, 1 KiB) is lowered to 32 bytes: the backing buffer of
	// every record, sentinels included, is recycled and re-used by the next line of the same size class - hostile ones too
	Conns []HostileConn `json:"conns"`
}

// sentinelEsc is appended to the messages of sentinels B and C: escape sequences, which the Fluentd output of the sample
// configuration turns into the real characters (a per-record flag in a recycled record object decides whether it does).
const sentinelEsc = `\n\tdetail=x`

func sentinelLog(conn int, which string, unescaped bool) string {
	s := fmt.Sprintf("sentinel-%s-of-connection-%d says hello to everybody", which, conn)
	if which != "A" {
		if unescaped {
			s += "\n\tdetail=x"
		} else {
			s += sentinelEsc
		}
	}
	return s
}

func sentinel(conn int, which string) string {
	return "<166>1 2022-08-15T03:48:33.760+03:00 basic-1 appServ/foo.com 51629 main.log - " + sentinelLog(conn, which, false)
}

// logsOf extracts the "log"/"message" texts of all records of a chunk (Forward or Datadog).
func logsOf(name string, data []byte) ([]string, error) {
	if strings.HasSuffix(name, ".dd") {
		zr, err := gzip.NewReader(bytes.NewReader(data))
		if err != nil {
			return nil, err
		}
		raw, err := io.ReadAll(zr)
		if err != nil {
			return nil, err
		}
		var arr []map[string]string
		if err := json.Unmarshal(raw, &arr); err != nil {
			return nil, err
		}
		var out []string
		for _, m := range arr {
			out = append(out, m["log"])
		}
		return out, nil
	}
	msg, err := vh.DecodeForwardMessage(data)
	if err != nil {
		return nil, err
	}
	var out []string
	for _, ev := range msg.Events {
		out = append(out, ev.Fields["log"])
	}
	return out, nil
}

func runHostile(c HostileCase) vh.Result {
	res := vh.Result{}
	sc := Scenario{MemWindow: 64, ChunkBytes: 4000, BatchLogs: 8}
	setDefs(sc)
	defs.InputLogMaxMessageBytes = c.MaxMsg
	defs.InputLogMaxRecordBytes = c.MaxMsg + 256
	defs.ListenerLineBufferSize = defs.InputLogMaxRecordBytes * 4
	oldPool := defs.InputLogMinRecordBytesToPool
	defer func() { defs.InputLogMinRecordBytesToPool = oldPool }()
	if c.PoolAll {
		defs.InputLogMinRecordBytesToPool = 32
		res.Classes = append(res.Classes, "all-records-pooled")
	}
	root, err := os.MkdirTemp("", "verif-c07b-")
	if err != nil {
		panic(err)
	}
	defer os.RemoveAll(root)
	os.Setenv("VERIF_SCRATCH", root)
	confPath := filepath.Join(root, "agent.yml")
	if err := os.WriteFile(confPath, []byte(vh.SampleConfigText(filepath.Join(root, "buf"), true)), 0o644); err != nil {
		panic(err)
	}
	ld, err := run.NewLoaderFromConfigFile(confPath, "slogagent_")
	if err != nil {
		panic("sample configuration rejected: " + err.Error())
	}
	clog := vh.NewConsumerLog()
	ld.PipelineArgs.NewConsumerOverride = clog.Override
	orch := ld.StartOrchestrator(logger.Root())
	addrs, stopIn := ld.LaunchInputs(orch)

	reaches := false
	for ci, hc := range c.Conns {
		conn, err := net.Dial("tcp", addrs[0])
		if err != nil {
			res.Violation = vh.Fail("robust:listener-not-accepting", "connection %d: the agent no longer accepts connections: %v", ci, err)
			res.NonTrivial = true
			break
		}
		var stream []byte
		stream = append(stream, hc.Prelude...)
		stream = append(stream, sentinel(ci, "A")...)
		stream = append(stream, '\n')
		write := func(b []byte) {
			if hc.Frag > 0 {
				for len(b) > 0 {
					n := min(hc.Frag, len(b))
					_ = conn.SetWriteDeadline(time.Now().Add(5 * time.Second))
					if _, err := conn.Write(b[:n]); err != nil {
						return
					}
					b = b[n:]
				}
				return
			}
			_ = conn.SetWriteDeadline(time.Now().Add(5 * time.Second))
			_, _ = conn.Write(b)
		}
		write(stream)
		if hc.PauseMs > 0 {
			time.Sleep(time.Duration(hc.PauseMs) * time.Millisecond)
		}
		stream = stream[:0]
		for _, segs := range hc.Bad {
			b := vh.Expand(segs)
			if len(b) >= 32 && b[0] == '<' {
				reaches = true
			}
			if len(b) > c.MaxMsg+256 {
				reaches = true
			}
			stream = append(stream, b...)
			stream = append(stream, '\n')
		}
		stream = append(stream, sentinel(ci, "B")...)
		stream = append(stream, '\n')
		write(stream)
		// sentinel C follows after a pause that is longer than the flush interval: whatever the bad bytes did to the
		// line buffer, the periodic flush has cleaned it up by then
		time.Sleep(45 * time.Millisecond)
		write([]byte(string(hc.BeforeC) + sentinel(ci, "C") + "\n"))
		if hc.Abrupt {
			// A reset discards whatever the agent has not read yet, so first wait until the agent has taken sentinel B
			// (it comes out after the periodic flush), then send a partial line and reset in the middle of it.
			deadline := time.Now().Add(5 * time.Second)
			for time.Now().Before(deadline) && !delivered(clog, sentinelLog(ci, "C", false)) && !delivered(clog, sentinelLog(ci, "C", true)) {
				time.Sleep(3 * time.Millisecond)
			}
			write([]byte("<13>1 2020-01-01T00:00:00Z host app 1 src - cut in the mid"))
			if tc, ok := conn.(*net.TCPConn); ok {
				_ = tc.SetLinger(0)
			}
		}
		conn.Close()
	}
	// the last connection's sentinel B must come out: wait for it
	wantB := fmt.Sprintf("sentinel-C-of-connection-%d ", len(c.Conns)-1)
	seen := func() map[string]bool {
		out := map[string]bool{}
		clog.Lock()
		defer clog.Unlock()
		for name, chunks := range clog.Chunks {
			_ = name
			for _, ch := range chunks {
				logs, err := logsOf(ch.ID, ch.Data)
				if err != nil {
					out["!undecodable "+ch.ID+": "+err.Error()] = true
					continue
				}
				for _, l := range logs {
					out[name+"|"+l] = true
				}
			}
		}
		return out
	}
	var got map[string]bool
	if res.Violation == nil {
		deadline := time.Now().Add(8 * time.Second)
		for {
			got = seen()
			found := 0
			for k := range got {
				if strings.Contains(k, wantB) {
					found++
				}
			}
			if found >= 2 || time.Now().After(deadline) { // both outputs
				break
			}
			time.Sleep(5 * time.Millisecond)
		}
	}
	done := make(chan struct{})
	go func() { stopIn(); orch.Shutdown(); close(done) }()
	select {
	case <-done:
	case <-time.After(StopBound() + 20*time.Second):
		res.Violation = vh.Fail("robust:stop-hang", "the agent did not stop after the hostile input\n%s", vh.GoroutineDump())
		res.NonTrivial = true
		return res
	}
	if res.Violation != nil {
		return res
	}
	got = seen()
	res.NonTrivial = reaches
	if reaches {
		res.Classes = append(res.Classes, "reaches-parser-or-oversize")
	}
	// "rejected and counted": the counters must still be readable after the hostile input (a label value taken from a
	// record that the exporter refuses makes the /metrics endpoint answer 500 for everything)
	if _, gerr := vh.GatherErr(ld.GetMetricGatherer()); gerr != "" {
		res.Violation = vh.Fail("robust:metrics-export-fails", "after the hostile input the agent's metric gatherer returns an error (the /metrics endpoint answers 500): %.500s\nfirst bad input of connection 0: %.120q", gerr, firstBad(c.Conns[0]))
		return res
	}
	for k := range got {
		if strings.HasPrefix(k, "!undecodable") {
			res.Violation = vh.Fail("robust:undecodable-chunk", "%s", k)
			return res
		}
	}
	for ci := range c.Conns {
		for _, out := range []string{"customFluentd", "datadogAPI"} {
			// sentinels B and C are complete records of their own; sentinel A may carry continuation lines (the bad bytes)
			unesc := out == "customFluentd" // the sample configuration unescapes the message for this output only
			a := sentinelLog(ci, "A", unesc)
			b := sentinelLog(ci, "B", unesc)
			cc := sentinelLog(ci, "C", unesc)
			okA, okB, okC := false, false, false
			for k := range got {
				if !strings.HasPrefix(k, out+"|") {
					continue
				}
				l := k[len(out)+1:]
				okA = okA || strings.HasPrefix(l, a)
				okB = okB || l == b
				if len(c.Conns[ci].BeforeC) > 0 && strings.HasPrefix(l, sentinelLog(ci, "B", false)+"\n") {
					// the blank lines in front of sentinel C arrived before the periodic flush had handed sentinel B on (the
					// pause is only a sleep): they are continuation lines of B then, and a record of several lines is passed on
					// as it came, without unescaping - B is the head of that record, nothing of it is lost or altered
					okB = true
				}
				okC = okC || l == cc
			}
			var near []string
			for k := range got {
				if strings.Contains(k, fmt.Sprintf("-of-connection-%d ", ci)) {
					near = append(near, fmt.Sprintf("%.120q", k))
				}
			}
			if !okA || !okC {
				res.Violation = vh.Fail("robust:sentinel-not-delivered", "connection %d, output %s: sentinel A delivered=%v, B=%v, C=%v after hostile input (first bad input %.80q)\ndelivered sentinel records: %v", ci, out, okA, okB, okC, firstBad(c.Conns[ci]), near)
				return res
			}
			if !okB {
				// More bytes between the start of sentinel A and the end of sentinel B than the line buffer can hold next to a
				// record of maximum length: the reader's overflow handling cuts the buffer wherever it stands, which can cut
				// sentinel B (known finding, see DESIGN.md 8.3). Any other loss of B is a violation.
				total := len(sentinel(ci, "A")) + len(sentinel(ci, "B")) + 2
				for _, segs := range c.Conns[ci].Bad {
					total += vh.SegLen(segs) + 1
				}
				key := "robust:sentinel-not-delivered"
				if total > 3*(c.MaxMsg+256) {
					key = "robust:record-after-oversized-input-cut"
				}
				if f := res.KnownOr(key, "connection %d, output %s: sentinel B (directly after the hostile input, %d bytes since the start of sentinel A, line buffer %d) was not delivered intact\ndelivered sentinel records: %v", ci, out, total, 4*(c.MaxMsg+256), near); f != nil {
					res.Violation = f
					return res
				}
			}
		}
	}
	return res
}

// delivered reports whether a record with exactly this log text has reached the consumer of any output.
func delivered(clog *vh.ConsumerLog, log string) bool {
	clog.Lock()
	defer clog.Unlock()
	for _, chunks := range clog.Chunks {
		for _, ch := range chunks {
			logs, err := logsOf(ch.ID, ch.Data)
			if err != nil {
				continue
			}
			for _, l := range logs {
				if l == log {
					return true
				}
			}
		}
	}
	return false
}

func firstBad(hc HostileConn) []byte {
	if len(hc.Bad) == 0 {
		return nil
	}
	b := vh.Expand(hc.Bad[0])
	if len(b) > 80 {
		b = b[:80]
	}
	return b
}

func genHostileCase(t *rapid.T) HostileCase {
	c := HostileCase{MaxMsg: rapid.SampledFrom([]int{300, 2000, 2000}).Draw(t, "maxMsg")}
	c.PoolAll = rapid.Bool().Draw(t, "poolAll")
	n := rapid.IntRange(1, 3).Draw(t, "nconns")
	for i := 0; i < n; i++ {
		hc := HostileConn{Frag: rapid.SampledFrom([]int{0, 0, 1, 13, 500}).Draw(t, "frag"), Abrupt: rapid.IntRange(0, 3).Draw(t, "abrupt") == 0}
		blanks := [][]byte{nil, nil, nil, []byte("\n"), []byte("\n\n"), []byte("\r\n"), []byte("\n\r\n"), []byte(" \n"), []byte("\x00\n"), []byte("\n \n")}
		hc.Prelude = rapid.SampledFrom(blanks).Draw(t, "prelude")
		hc.BeforeC = rapid.SampledFrom(blanks).Draw(t, "beforeC")
		if rapid.IntRange(0, 2).Draw(t, "pause") == 0 {
			hc.PauseMs = rapid.SampledFrom([]int{15, 40}).Draw(t, "pauseMs")
		}
		for k := rapid.IntRange(1, 3).Draw(t, "nbad"); k > 0; k-- {
			hc.Bad = append(hc.Bad, vh.GenHostile(t, c.MaxMsg))
		}
		c.Conns = append(c.Conns, hc)
	}
	return c
}

func TestListenerHostile(t *testing.T) {
	if os.Getenv("VERIF_PROPERTY") != "C07" {
		t.Skip("layer B of C07")
	}
	vh.Run(t, vh.Spec[HostileCase]{
		Name: "listener", Gen: genHostileCase, Run: runHostile, Quick: 10, Thorough: 150, Journal: true, ShrinkSeconds: 20,
		Rule: "layer B: the real agent (sample configuration, real TCP listener, all transforms, both outputs, recording consumer instead of the network clients) receives on 1-3 connections: optional blank lines (LF, CR LF, a blank, NUL) at the very start, sentinel A, optional pause (periodic flush), 1-3 hostile inputs each ending in a newline (same generator as layer A, limits scaled to 300/2000 B so that the 4x line buffer is crossed), sentinel B, after a flush pause optional blank lines and sentinel C, optionally an abrupt reset in the middle of a further line; fragmentation 1/13/500 bytes; oracle: the process stays alive (journal), every connection is accepted, sentinel B of every connection is delivered as a record of its own and sentinel A at least as the head of a record on both outputs, all chunks decode, the agent stops in bounded time; non-trivial = an input that reaches the parser (>=32 bytes starting with '<') or is longer than MaxRecordBytes",
	})
}
