package e2e

import (
	"fmt"
	"os"
	"testing"

	"github.com/relex/gotils/logger"
	"verifharness/vh"
)

// TestProbeReloadAtStop: what does the unchanged tree do when a SIGHUP races with the stop? (VERIF_PROBE=1)
func TestProbeReloadAtStop(t *testing.T) {
	if os.Getenv("VERIF_PROBE") == "" {
		t.Skip()
	}
	vh.QuietLogs(logger.ErrorLevel)
	for _, off := range []int{-3000, -500, -50, 1, 50, 200, 500, 1000, 3000} {
		for rep := 0; rep < 6; rep++ {
			sc := Scenario{KeyHost: true, Modes: []string{"Forward"}, MemWindow: 4, ChunkBytes: 600, BatchLogs: 4, Reloader: true,
				Gens: []Generation{
					{Conns: []ConnSpec{{Recs: []Rec{{App: 0, Host: 0, Size: 50}, {App: 0, Host: 1, Size: 300}, {App: 1, Host: 0, Size: 400}, {App: 0, Host: 0, Size: 400}}, Close: "open"}, {Recs: []Rec{{App: 1, Host: 1, Size: 50}}, Close: "graceful"}},
						Upstream: [][]vh.UpstreamAttempt{{{Kind: "neverack"}}}, StopAfter: 30, ReloadAtStopUs: off},
					{Conns: nil, StopAfter: 300},
				}}
			out := Run(sc)
			res := "ok"
			if out.Crash != nil {
				res = out.Crash.Key + " :: " + out.Crash.Msg
				if len(res) > 1500 {
					res = res[:1500]
				}
			} else if f := CheckC01(out); f != nil {
				res = "C01: " + f.Key
			}
			fmt.Printf("off=%d rep=%d %s %v\n", off, rep, res, out.Notes)
		}
	}
}
