package e2e

import (
	"fmt"
	"os"
	"strings"
	"testing"

	"github.com/relex/gotils/logger"
	"pgregory.net/rapid"

	"verifharness/vh"
)

func init() {
	vh.QuietLogs(logger.ErrorLevel)
}

func genUpstream(t *rapid.T, focus string) []vh.UpstreamAttempt {
	n := rapid.IntRange(0, 5).Draw(t, "nattempts")
	var out []vh.UpstreamAttempt
	for i := 0; i < n; i++ {
		// "silent" (accepts, never says anything) only differs from "neverack" when the outputs use a shared key: the
		// client then waits for the handshake; without a key it is one more connection that never acknowledges
		k := rapid.SampledFrom([]string{"healthy", "refuse", "reset", "reset", "neverack", "late", "wrongid", "silent", "rejectlogin"}).Draw(t, "kind")
		a := vh.UpstreamAttempt{Kind: k}
		switch k {
		case "reset":
			a.After = rapid.IntRange(0, 3).Draw(t, "after")
		case "late":
			a.Delay = rapid.IntRange(1, 60).Draw(t, "delay")
		}
		out = append(out, a)
	}
	return out
}

func genConn(t *rapid.T, maxRecs int) ConnSpec {
	var c ConnSpec
	n := rapid.IntRange(1, maxRecs).Draw(t, "nrecs")
	for i := 0; i < n; i++ {
		r := Rec{App: rapid.SampledFrom([]int{0, 0, 1, 1, 2, 2, 3}).Draw(t, "app"), Host: rapid.IntRange(0, 1).Draw(t, "host")}
		r.Size = rapid.OneOf(rapid.IntRange(0, 80), rapid.IntRange(200, 700), rapid.SampledFrom([]int{900, 1100, 3000})).Draw(t, "size")
		switch rapid.IntRange(0, 11).Draw(t, "kind") {
		case 0:
			r.Kind = 1
		case 1:
			r.Kind = 2
		case 2:
			r.Kind = 3
		}
		if rapid.IntRange(0, 9).Draw(t, "pause") == 0 {
			r.Pause = rapid.SampledFrom([]int{1, 5, 15, 30}).Draw(t, "pauseMs")
		}
		c.Recs = append(c.Recs, r)
	}
	c.FragEvery = rapid.SampledFrom([]int{0, 0, 1, 7, 64}).Draw(t, "frag")
	c.Close = "graceful"
	if rapid.IntRange(0, 5).Draw(t, "open") == 0 {
		c.Close = "open"
	}
	c.Garbage = rapid.IntRange(0, 5).Draw(t, "garbage") == 0
	return c
}

// genBacklogScenario: one key set, many one-record chunks, an upstream that acknowledges but paces the client (late ACKs:
// the client takes the next chunk only when an ACK frees a slot) or becomes healthy after refusals, and a stop while the
// client is in the middle of working through the backlog; then restart(s) until drained.
func genBacklogScenario(t *rapid.T) Scenario {
	var sc Scenario
	sc.Family = "backlog"
	nOut := rapid.SampledFrom([]int{1, 1, 2}).Draw(t, "nout")
	for i := 0; i < nOut; i++ {
		sc.Modes = append(sc.Modes, rapid.SampledFrom([]string{"Forward", "PackedForward", "CompressedPackedForward"}).Draw(t, "mode"))
	}
	sc.MemWindow = rapid.SampledFrom([]int{4, 16, 64, 64}).Draw(t, "memWindow")
	sc.ChunkBytes = 300
	sc.BatchLogs = rapid.SampledFrom([]int{2, 8}).Draw(t, "batchLogs")
	ngen := rapid.IntRange(1, 2).Draw(t, "ngens")
	for g := 0; g < ngen; g++ {
		var gen Generation
		nconn := rapid.IntRange(1, 2).Draw(t, "nconns")
		for c := 0; c < nconn; c++ {
			var cs ConnSpec
			n := rapid.IntRange(30, 110).Draw(t, "nrecs")
			for i := 0; i < n; i++ {
				cs.Recs = append(cs.Recs, Rec{App: 0, Host: 0, Size: rapid.IntRange(200, 400).Draw(t, "size")})
			}
			cs.Close = "graceful"
			gen.Conns = append(gen.Conns, cs)
		}
		window := 0
		for o := 0; o < nOut; o++ {
			var ups []vh.UpstreamAttempt
			switch rapid.IntRange(0, 3).Draw(t, "pace") {
			case 0:
				ups = nil // healthy from the start
			case 1:
				for k := rapid.IntRange(1, 6).Draw(t, "refusals"); k > 0; k-- {
					ups = append(ups, vh.UpstreamAttempt{Kind: "refuse"})
				}
				window = max(window, 80)
			default:
				d := rapid.IntRange(1, 6).Draw(t, "delay")
				ups = []vh.UpstreamAttempt{{Kind: "late", Delay: d}, {Kind: "late", Delay: d}}
				window = max(window, 100*d)
			}
			gen.Upstream = append(gen.Upstream, ups)
			gen.Down = append(gen.Down, false)
		}
		gen.StopAfter = rapid.IntRange(0, max(window, 10)).Draw(t, "stopAfter")
		if rapid.IntRange(0, 4).Draw(t, "stopMid") == 0 {
			gen.StopMid = true
		}
		sc.Gens = append(sc.Gens, gen)
	}
	final := Generation{StopAfter: 1500}
	for o := 0; o < nOut; o++ {
		final.Upstream = append(final.Upstream, nil)
		final.Down = append(final.Down, false)
	}
	sc.Gens = append(sc.Gens, final)
	return sc
}

// genDrainCycleScenario: one key set, one output, a disk quota that holds any single burst but not all of them together.
// The client sends 3-4 bursts of one-record chunks with long pauses in between; per burst the upstream first takes the
// chunks without acknowledging any (they pile up in memory and on disk), then - after the client's ACK time-out and
// reconnection - acknowledges exactly that burst, and resets when the first chunk of the next burst arrives. When the
// server's log shows that every burst had been acknowledged before the next one was sent, the queue directory was empty
// at the start of every burst and no burst alone fills the quota: not a single chunk may be discarded.
func genDrainCycleScenario(t *rapid.T) Scenario {
	var sc Scenario
	sc.Family = "drain-cycles"
	sc.Modes = []string{rapid.SampledFrom([]string{"Forward", "PackedForward", "CompressedPackedForward"}).Draw(t, "mode")}
	sc.MemWindow = 2
	sc.ChunkBytes = 300
	sc.BatchLogs = rapid.SampledFrom([]int{2, 8}).Draw(t, "batchLogs")
	var gen Generation
	var cs ConnSpec
	var ups []vh.UpstreamAttempt
	cycles := rapid.IntRange(3, 4).Draw(t, "cycles")
	maxBurst := 0
	for cy := 0; cy < cycles; cy++ {
		n := rapid.IntRange(24, 36).Draw(t, "burst")
		maxBurst = max(maxBurst, n)
		for i := 0; i < n; i++ {
			r := Rec{App: 0, Host: 0, Size: rapid.IntRange(200, 260).Draw(t, "size")}
			if i == 0 && cy > 0 {
				r.Pause = 900 // ACK time-out 200 ms + reconnection + acknowledging the burst take far less
			}
			cs.Recs = append(cs.Recs, r)
		}
		ups = append(ups, vh.UpstreamAttempt{Kind: "neverack"})
		if cy < cycles-1 {
			ups = append(ups, vh.UpstreamAttempt{Kind: "reset", After: n})
		}
	}
	cs.Close = "graceful"
	gen.Conns = []ConnSpec{cs}
	gen.Upstream = [][]vh.UpstreamAttempt{ups}
	gen.Down = []bool{false}
	gen.StopAfter = 1200
	sc.QuotaChunks = maxBurst + 6
	sc.Gens = append(sc.Gens, gen, Generation{StopAfter: 1500, Upstream: [][]vh.UpstreamAttempt{nil}, Down: []bool{false}})
	return sc
}

// genBlockedWriteScenario: an upstream that accepts the connection and then never reads, and more data for one key set
// than the socket buffers of a loopback connection hold (about 4 MB): the client's write blocks in the middle of a chunk.
// The stop arrives while it is blocked (or after the send deadline has passed and the client is retrying).
func genBlockedWriteScenario(t *rapid.T) Scenario {
	var sc Scenario
	sc.Family = "blocked-write"
	sc.Modes = []string{rapid.SampledFrom([]string{"Forward", "PackedForward"}).Draw(t, "mode")} // uncompressed: the volume counts
	sc.MemWindow = rapid.SampledFrom([]int{16, 64}).Draw(t, "memWindow")
	// few big chunks (a dozen unacknowledged chunks is all the client ever has in flight); with the 6 MB limit and a long
	// flush interval the very first chunk is larger than the socket buffers, so the write blocks with nothing pending at
	// the acknowledger: only the send deadline or the stop can end it
	sc.ChunkBytes = rapid.SampledFrom([]int{1000000, 6000000, 6000000}).Draw(t, "chunkBytes")
	if sc.ChunkBytes > 1000000 {
		sc.FlushMs = 600
	}
	sc.BatchLogs = 500
	var gen Generation
	cs := ConnSpec{Close: "graceful", Bulk: rapid.IntRange(1900, 2600).Draw(t, "bulk")}
	cs.Recs = []Rec{{Size: 100}}
	gen.Conns = []ConnSpec{cs}
	n := rapid.IntRange(1, 3).Draw(t, "attempts")
	var ups []vh.UpstreamAttempt
	if rapid.Bool().Draw(t, "recoveryStage") {
		// the first connection takes the first chunk completely and resets without acknowledging it: the chunk becomes a
		// leftover, and it is while the leftover is re-sent on the next connection (recovery stage) that the write blocks
		ups = append(ups, vh.UpstreamAttempt{Kind: "reset", After: 0})
		sc.Family = "blocked-write-recovery"
	}
	for i := 0; i < n; i++ {
		ups = append(ups, vh.UpstreamAttempt{Kind: "stopreading"})
	}
	ups = append(ups, vh.UpstreamAttempt{Kind: "stopreading"}, vh.UpstreamAttempt{Kind: "stopreading"}, vh.UpstreamAttempt{Kind: "stopreading"})
	gen.Upstream = [][]vh.UpstreamAttempt{ups}
	gen.Down = []bool{false}
	gen.StopAfter = rapid.SampledFrom([]int{0, 20, 100, 250, 400, 700}).Draw(t, "stopAfter")
	sc.Gens = []Generation{gen, {StopAfter: 4000, Upstream: [][]vh.UpstreamAttempt{nil}, Down: []bool{false}}}
	return sc
}

func genScenario(t *rapid.T, focus string) Scenario {
	if (focus == "C18" || focus == "C01") && rapid.IntRange(0, 7).Draw(t, "blocked") == 0 {
		return genBlockedWriteScenario(t)
	}
	if (focus == "C01" || focus == "C19") && rapid.IntRange(0, 9).Draw(t, "cycles") == 0 {
		return genDrainCycleScenario(t)
	}
	if rapid.IntRange(0, 3).Draw(t, "family") == 0 {
		return genBacklogScenario(t)
	}
	var sc Scenario
	sc.KeyHost = rapid.Bool().Draw(t, "keyHost")
	nOut := rapid.SampledFrom([]int{1, 1, 2}).Draw(t, "nout")
	for i := 0; i < nOut; i++ {
		sc.Modes = append(sc.Modes, rapid.SampledFrom([]string{"Forward", "PackedForward", "CompressedPackedForward"}).Draw(t, "mode"))
	}
	sc.Secret = rapid.IntRange(0, 2).Draw(t, "secret") == 0
	sc.TLS = rapid.IntRange(0, 3).Draw(t, "tls") == 0
	if rapid.IntRange(0, 3).Draw(t, "rotate") == 0 {
		sc.RotateMs = rapid.SampledFrom([]int{30, 80, 150, 300}).Draw(t, "rotateMs")
	}
	sc.TinyQuota = focus != "C05" && rapid.IntRange(0, 7).Draw(t, "tiny") == 0
	sc.MemWindow = rapid.SampledFrom([]int{2, 4, 16}).Draw(t, "memWindow")
	sc.ChunkBytes = rapid.SampledFrom([]int{300, 700, 2000}).Draw(t, "chunkBytes")
	sc.BatchLogs = rapid.SampledFrom([]int{2, 4, 8, 500}).Draw(t, "batchLogs")
	ngen := rapid.IntRange(1, 4).Draw(t, "ngens")
	for g := 0; g < ngen; g++ {
		var gen Generation
		nconn := rapid.IntRange(0, 4).Draw(t, "nconns")
		if g == 0 && nconn == 0 {
			nconn = 1
		}
		for c := 0; c < nconn; c++ {
			gen.Conns = append(gen.Conns, genConn(t, 40))
		}
		for o := 0; o < nOut; o++ {
			gen.Upstream = append(gen.Upstream, genUpstream(t, focus))
			gen.Down = append(gen.Down, rapid.IntRange(0, 5).Draw(t, "down") == 0)
		}
		gen.StopAfter = rapid.SampledFrom([]int{0, 0, 5, 30, 120, 400}).Draw(t, "stopAfter")
		if rapid.IntRange(0, 6).Draw(t, "stopMid") == 0 {
			gen.StopMid = true
			gen.StopAfter = rapid.SampledFrom([]int{0, 1, 5, 20}).Draw(t, "stopMidAfter")
		}
		sc.Gens = append(sc.Gens, gen)
	}
	// "until the upstream is finally healthy": a last generation without traffic, healthy upstreams and time to drain
	final := Generation{StopAfter: 1500}
	for o := 0; o < nOut; o++ {
		final.Upstream = append(final.Upstream, nil)
		final.Down = append(final.Down, false)
	}
	sc.Gens = append(sc.Gens, final)
	return sc
}

func classify(sc Scenario, o *Outcome) (bool, []string) {
	var cls []string
	faulty, undelivered, restart, spill, open, reset, never, late, down, mid := false, false, len(sc.Gens) > 2, false, false, false, false, false, false, false
	for gi, g := range sc.Gens {
		for oi, ups := range g.Upstream {
			for _, a := range ups {
				if a.Kind != "healthy" {
					faulty = true
				}
				switch a.Kind {
				case "reset":
					reset = true
				case "neverack":
					never = true
				case "late":
					late = true
				}
			}
			if oi < len(g.Down) && g.Down[oi] {
				down, faulty = true, true
			}
		}
		for _, c := range g.Conns {
			if c.Close == "open" {
				open = true
			}
		}
		if g.StopMid {
			mid = true
		}
		if gi < len(o.Stops) {
			for _, d := range o.Stops[gi].Disk {
				if len(d) > 0 {
					undelivered = true
				}
			}
			if o.Stops[gi].Metrics.Sum("slogagent_process_buffer_input_chunks_total", "state=persistent") > 0 {
				spill = true
			}
		}
	}
	add := func(b bool, s string) {
		if b {
			cls = append(cls, s)
		}
	}
	add(faulty, "faulty-upstream-attempt")
	add(undelivered, "stop-with-undelivered-data")
	add(restart, "restart")
	add(spill, "spill-or-recovery")
	add(open, "connection-open-at-stop")
	add(reset, "reset-mid-stream")
	add(never, "never-ack")
	add(late, "late-ack")
	add(down, "upstream-down")
	add(mid, "stop-mid-traffic")
	add(sc.Family == "backlog", "backlog-being-worked-off-at-stop(family)")
	add(sc.Family == "drain-cycles", "drain-cycles(family)")
	add(sc.Family == "drain-cycles" && o.DrainedBetweenBursts(), "drain-cycles:every-burst-acknowledged-before-the-next(no-overflow-possible)")
	add(strings.HasPrefix(sc.Family, "blocked-write"), "upstream-never-reads-and-more-data-than-the-socket-buffers(family)")
	add(sc.Family == "blocked-write-recovery", "write-blocks-while-a-leftover-is-re-sent(recovery stage)")
	if strings.HasPrefix(sc.Family, "blocked-write") && len(o.Stops) > 0 {
		m := o.Stops[0].Metrics
		add(m.Sum("slogagent_process_output_forward_attempts_total") > m.Sum("slogagent_process_output_forwarded_chunks_total"), "a-send-did-not-complete(blocked mid-write, measured)")
		add(m.Sum("slogagent_process_output_forward_attempts_total") > 0 && m.Sum("slogagent_process_output_forwarded_chunks_total") == 0, "first-send-blocked-with-nothing-awaiting-ack(measured)")
	}
	silent, rejected := false, false
	for _, g := range sc.Gens {
		for _, ups := range g.Upstream {
			for _, a := range ups {
				if a.Kind == "rejectlogin" {
					rejected = true
				}
				if a.Kind == "silent" {
					silent = true
				}
			}
		}
	}
	add(sc.Secret, "shared-key-handshake")
	add(sc.RotateMs > 0, "periodic-reconnection(short maxDuration)")
	add(sc.Secret && silent, "upstream-accepts-but-never-answers-the-handshake")
	add(sc.Secret && rejected, "upstream-refuses-the-login")
	add(sc.TLS, "tls-to-the-upstream")
	add(sc.TLS && silent, "upstream-accepts-but-never-answers-the-tls-handshake")
	add(sc.TinyQuota, "tiny-quota")
	add(len(sc.Modes) > 1, "two-outputs")
	add(sc.KeyHost, "two-key-fields")
	badUTF8 := false
	for _, g := range sc.Gens {
		for _, cn := range g.Conns {
			for _, r := range cn.Recs {
				if r.App == 3 {
					badUTF8 = true
				}
			}
		}
	}
	add(badUTF8, "key-value-not-valid-utf8")
	notDrained := false
	if len(o.Stops) > 0 {
		last := o.Stops[len(o.Stops)-1]
		for _, d := range last.Disk {
			if len(d) > 0 {
				notDrained = true
			}
		}
	}
	add(notDrained, "not-drained-within-budget")
	return faulty && undelivered, cls
}

func runFor(prop string) func(Scenario) vh.Result {
	return func(sc Scenario) (res vh.Result) {
		vh.Logs.Take()
		o := Run(sc)
		if o.Crash != nil {
			res.Violation, res.NonTrivial = o.Crash, true
			return res
		}
		if o.Hang != "" {
			res.Violation, res.NonTrivial = vh.Fail("e2e:scenario-hang", "the scenario did not finish within %v\n%s", ScenarioBudget, o.Hang), true
			return res
		}
		res.NonTrivial, res.Classes = classify(sc, o)
		agentErrors := vh.Logs.Take()
		defer func() {
			withholdIfChannelTimeoutExpired(&res, agentErrors)
			if res.Violation != nil && agentErrors != "" {
				if len(agentErrors) > 3000 {
					agentErrors = agentErrors[:3000]
				}
				res.Violation.Msg += "\nerror-level log output of the agent during this scenario:\n" + agentErrors
			}
		}()
		switch prop {
		case "C01":
			res.Violation = CheckC01(o)
		case "C05":
			res.Violation = CheckC05(o)
			// non-trivial for ordering: a stream split over >= 2 chunks that saw a retransmission, spill or restart
			res.NonTrivial = res.NonTrivial || hasClass(res.Classes, "spill-or-recovery")
		case "C18":
			res.Violation = CheckC18(o)
			res.NonTrivial = hasClass(res.Classes, "faulty-upstream-attempt") || hasClass(res.Classes, "upstream-down") || hasClass(res.Classes, "stop-mid-traffic")
		case "C19":
			res.Violation = CheckC19(o)
		}
		return res
	}
}

func hasClass(l []string, c string) bool {
	for _, x := range l {
		if x == c {
			return true
		}
	}
	return false
}

const e2eRule = "scenarios against the real agent in-process (loader, TCP listener, orchestrator, pipelines, hybrid buffers, Forward clients; timeouts and sizes are defs variables scaled down): 1-4 generations on the same queue directories, each with 0-4 client connections x 1-40 stamped records (3 apps x 2 hosts as key sets, payloads 0-3000 B, filtered and malformed records, pauses, fragmentation 1/7/64 bytes, graceful or still open at the stop), per output a script of upstream connection attempts (refuse / reset after k messages / never ACK / late ACK / wrong-ID ACK / healthy) or an upstream that is down, stop at once / after a wait / in the middle of the traffic, 1-2 outputs in all three Forward modes, ample or tiny queue quota, memory windows 2-16, chunk limits 300-2000 B, batch sizes 2-500; a final healthy generation; "

func TestE2E(t *testing.T) {
	prop := os.Getenv("VERIF_PROPERTY")
	var rule string
	switch prop {
	case "C01":
		rule = e2eRule + "oracle C01: after every graceful stop every record the agent provably read and did not filter is, per output, acknowledged by the upstream or decodable in a chunk file; every copy equals what was sent; no chunk file disappears before its ACK; losses only with the tiny quota and a non-zero dropped counter; non-trivial = a faulty upstream attempt and a stop with undelivered data"
	case "C05":
		rule = e2eRule + "oracle C05: per (generation, connection, key set) the first deliveries at the upstream have increasing sequence numbers, entries inside a chunk are in order, chunk IDs of a pipeline increase on every upstream connection and no older unacknowledged chunk is skipped; non-trivial = fault+undelivered stop, or a spill/recovery"
	case "C18":
		rule = e2eRule + "oracle C18: shutdownInputs()+Shutdown() returns within 2x(ack+acker-stop+send+3x channel timeouts)+10 s of the scaled values, and afterwards nothing the agent read exists only in memory; non-trivial = faulty/down upstream or a stop in the middle of the traffic"
	case "C19":
		rule = e2eRule + "oracle C19: after every stop input passed+dropped equals the messages (and bytes) sent, pipeline passed+dropped equals input passed, the drop-rule label counter equals the filtered records per source/app label values, per output buffer input = created + recovered = delivered + dropped + files on disk, pending gauge 0, acknowledged <= forwarded <= attempts, acknowledged = consumed <= ACKs sent by the upstream; non-trivial = a faulty upstream attempt and a stop with undelivered data"
	default:
		t.Skip("VERIF_PROPERTY not set to an end-to-end property")
	}
	vh.Run(t, vh.Spec[Scenario]{
		Name: "e2e", Gen: func(t *rapid.T) Scenario { return genScenario(t, prop) }, Run: runFor(prop), Quick: 40, Thorough: 300, Journal: true, ShrinkSeconds: 30,
		Rule: rule,
	})
}

var _ = fmt.Sprintf

// withholdIfChannelTimeoutExpired: the agent gives records up when a pipeline does not take a batch within
// defs.IntermediateChannelTimeout (60 s in production, scaled to 3 s here) and says so in an error-level log line. On a
// machine so loaded that a pipeline goroutine does not run for 3 s that happens to the unchanged agent (seen in the thorough
// tier while two other thorough runs and the self-test were going on). A loss that coincides with that log line is an
// artefact of the scaled time-out, not a verdict: it is withheld and counted as a class. A pipeline that never takes
// anything any more is still reported - by the stop that then cannot complete.
func withholdIfChannelTimeoutExpired(res *vh.Result, agentErrors string) {
	if res.Violation == nil || !strings.Contains(agentErrors, "timeout flushing") {
		return
	}
	if strings.HasPrefix(res.Violation.Key, "e2e:record-lost") || strings.HasPrefix(res.Violation.Key, "e2e:stop-record-lost") || strings.HasPrefix(res.Violation.Key, "metrics:") {
		res.Violation = nil
		res.Classes = append(res.Classes, "scaled-channel-timeout-expired(machine too slow, loss verdict withheld)")
	}
}
