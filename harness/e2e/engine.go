// Package e2e is the end-to-end engine: generated scenarios run against the real agent in-process (loader, TCP listener,
// orchestrator, pipelines, hybrid buffers, Forward clients) with scripted fake Forward servers. The oracles of C01, C05, C18
// and C19 (and the listener layer of C07, the restart layer of C06, the reload layer of C17) are evaluated on the same runs.
package e2e

import (
	"fmt"
	"io"
	"net"
	"os"
	"path/filepath"
	"sort"
	"strings"
	"sync"
	"time"

	"github.com/prometheus/client_golang/prometheus"
	"github.com/relex/gotils/logger"
	"github.com/relex/slog-agent/base"
	"github.com/relex/slog-agent/defs"
	"github.com/relex/slog-agent/output/fluentdforward"
	"github.com/relex/slog-agent/run"

	"verifharness/vh"
)

// ---------------------------------------------------------------------------
// scenario

type Rec struct {
	App   int `json:"app"`             // index into apps
	Host  int `json:"host"`            // index into hosts
	Size  int `json:"size"`            // payload bytes
	Kind  int `json:"kind,omitempty"`  // 0 normal, 1 filtered by the pipeline's drop rule, 2 malformed but record-shaped (rejected by the parser), 3 filtered by the drop rule among the input extractions
	Pause int `json:"pause,omitempty"` // ms to wait before sending this record
}

type ConnSpec struct {
	Recs      []Rec  `json:"recs"`
	FragEvery int    `json:"fragEvery,omitempty"` // write the stream in fragments of this many bytes (0 = one write per record)
	Close     string `json:"close"`               // graceful | open (still open when the agent is stopped)
	Garbage   bool   `json:"garbage,omitempty"`   // a non-record line first
	StartMs   int    `json:"startMs,omitempty"`   // ms to wait before opening the connection
	Bulk      int    `json:"bulk,omitempty"`      // after Recs: this many more records of BulkSize (default 3000) bytes for key set (app 0, host 0)
	BulkSize  int    `json:"bulkSize,omitempty"`
	BulkPause int    `json:"bulkPause,omitempty"` // ms between bulk records (0 = none)
}

// ReloadSpec is one configuration reload (what SIGHUP triggers) placed during the traffic of a generation.
type ReloadSpec struct {
	AtMs    int    `json:"atMs"`            // ms after the clients were started
	Variant string `json:"variant"`         // valid | invalid | incompatible (other orchestration keys) | shifted (schema fields moved)
	Burst   int    `json:"burst,omitempty"` // real-signal mode only: this many SIGHUPs a few ms apart instead of one (signals arriving while a reload runs)
}

// ReloadObs is what was observed around one reload.
type ReloadObs struct {
	Gen             int
	Variant         string
	Start, End      time.Time
	Burst           int      // number of signals sent for this reload (real-signal mode; 0/1 = one)
	OK, Failed      float64  // increase of slogagent_reloads_total{status=success|failure} across the call
	QueuesWithFiles int      // queue directories that held chunk files right after the reload returned
	Orphans         []string // queue directories that held chunk files right after the reload returned and for which the new pipeline set has no pipeline
}

type Generation struct {
	Conns     []ConnSpec             `json:"conns"`
	Upstream  [][]vh.UpstreamAttempt `json:"upstream"`          // per output: script of upstream connection attempts
	Down      []bool                 `json:"down,omitempty"`    // per output: the upstream does not listen at all during this generation
	StopAfter int                    `json:"stopAfter"`         // ms to wait after the input was read before stopping (0 = at once)
	StopMid   bool                   `json:"stopMid,omitempty"` // stop while connections are still sending
	Reload    string                 `json:"reload,omitempty"`  // "", valid, invalid, incompatible: one reload after the traffic was read (reloader mode)
	Reloads   []ReloadSpec           `json:"reloads,omitempty"` // reloads while the clients are sending (reloader mode)
	ReloadAtStopUs int               `json:"reloadAtStopUs,omitempty"` // reloader mode: one more reload, triggered this many microseconds after the stop request (negative: before it)
}

type Scenario struct {
	KeyHost     bool         `json:"keyHost"`               // orchestration keys [app, host] instead of [app]
	Modes       []string     `json:"modes"`                 // message mode per output (1 or 2 outputs)
	TinyQuota   bool         `json:"tinyQuota"`             // maxBufSize smaller than a few chunks
	QuotaChunks int          `json:"quotaChunks,omitempty"` // maxBufSize = this many times the chunk byte limit (0 = 200 MB, or two with tinyQuota)
	MemWindow   int          `json:"memWindow"`             // defs.BufferMaxNumChunksInMemory
	ChunkBytes  int          `json:"chunkBytes"`            // Forward chunk byte limit (hook H3)
	BatchLogs   int          `json:"batchLogs"`             // defs.IntermediateBufferMaxNumLogs
	Reloader    bool         `json:"reloader,omitempty"`    // run with NewReloaderFromConfigFile
	Family      string       `json:"family,omitempty"`      // generator family (classification only)
	TLS         bool         `json:"tls,omitempty"`         // the outputs connect with tls: true; the fake upstream answers with a self-signed certificate (the client does not verify)
	Secret      bool         `json:"secret,omitempty"`      // the outputs use a shared key: every upstream connection starts with the Forward handshake
	RotateMs    int          `json:"rotateMs,omitempty"`    // upstream.maxDuration in ms (0 = 30 min): periodic reconnection, i.e. the client's soft stop with chunks in flight
	FlushMs     int          `json:"flushMs,omitempty"`     // defs.IntermediateFlushInterval in ms (0 = 20): a long interval lets chunks fill up to the byte limit
	Gens        []Generation `json:"gens"`
}

// one key value with separator characters (the queue directory name is a sanitised form of it), one that is not valid
// UTF-8 (the syslog parser takes any bytes; key values become tag parts, queue IDs and metric label values)
var apps = []string{"a0", "srv/foo.com", "a2", "a\xff3"}
var hosts = []string{"h0", "h1"}
var levels = []string{"off", "fatal", "crit", "error", "warn", "notice", "info", "debug"}

// ---------------------------------------------------------------------------
// observations

type Expected struct {
	Stamp    string
	Log      string
	App      string
	Host     string
	Level    string
	Source   string
	Gen      int
	Conn     int
	Seq      int // sequence within (gen, conn, key)
	Key      string
	Kind     int
	DialAt   time.Time // when the client connection of this record was opened
	QueuedAt time.Time // when the client put the record into its write buffer (after the record's pause); it is written later
	Must     bool      // provably read by the agent (graceful connection whose records were all counted)
	Line     int       // length of the line in bytes (without newline)
}

type StopObs struct {
	Gen                      int
	StopMs                   float64
	Disk                     []map[string]*vh.ForwardMessage // per output: chunk ID -> decoded message (files in the queue directories)
	DiskErrors               []string
	Metrics                  vh.Metrics
	MetricsErr               string // error returned by the agent's metric gatherer (the /metrics endpoint answers 500 then)
	InputDrained             bool
	SentLines                int // lines written by clients on connections closed gracefully
	SentBytes                int
	OpenLines                int // lines written on connections still open at the stop
	UpstreamAtStop           []string
	ReloadsOK, ReloadsFailed float64
	AckedStamps              []map[string]bool // per output: stamps of records in messages acknowledged by the server so far
	AckedChunks              []map[string]int  // per output: chunk ID -> number of acknowledged receptions so far
	SeenChunks               []map[string]bool // per output: chunk IDs completely received so far
}

type Outcome struct {
	Sc             Scenario
	Expected       map[string]*Expected // by stamp
	Stops          []StopObs
	Servers        [][]*vh.RecvMessage // per output, at the end
	ServerErrs     []string
	Crash          *vh.Finding
	Notes          []string
	Reloads        []ReloadObs
	OrphansAtStart []string // "generation g: out/dir": queue directories that held chunk files when a generation started and got no pipeline
	Hang           string   // goroutine dump if the scenario did not finish within the budget
	instances      int
}

func setDefs(sc Scenario) {
	defs.InputFlushInterval = 10 * time.Millisecond
	defs.IntermediateFlushInterval = 20 * time.Millisecond
	if sc.FlushMs > 0 {
		defs.IntermediateFlushInterval = time.Duration(sc.FlushMs) * time.Millisecond
	}
	defs.IntermediateChannelTimeout = 3 * time.Second
	defs.IntermediateBufferMaxNumLogs = sc.BatchLogs
	defs.BufferMaxNumChunksInMemory = sc.MemWindow
	defs.BufferMaxNumChunksInQueue = 10000
	defs.ForwarderConnectionTimeout = 300 * time.Millisecond
	defs.ForwarderHandshakeTimeout = 300 * time.Millisecond
	defs.ForwarderBatchSendTimeoutBase = 300 * time.Millisecond
	defs.ForwarderBatchSendMinimumSpeed = 4 << 20 // the send deadline grows by whole seconds of chunk length / this speed: +1 s for a 6 MB chunk
	if strings.HasPrefix(sc.Family, "blocked-write") {
		// as with the production values (90 s + 100 s per MB against 300 s): the send deadline of a multi-megabyte chunk is
		// far beyond the time Destroy waits for the feeder (here about 9 s), so a blocked write has to be aborted at the stop
		defs.ForwarderBatchSendMinimumSpeed = 300 << 10
	}
	defs.ForwarderBatchAckTimeout = 200 * time.Millisecond
	defs.ForwarderAckerStopTimeout = 400 * time.Millisecond
	defs.ForwarderRetryInterval = 10 * time.Millisecond
	defs.ForwarderPingInterval = 50 * time.Millisecond
	defs.BufferShutDownTimeout = defs.ForwarderBatchAckTimeout + defs.IntermediateChannelTimeout*2
}

// StopBound is the bound on shutdownInputs()+Shutdown() derived from the (scaled) configured timeouts plus slack (C18).
func StopBound() time.Duration {
	return 2*time.Second + 2*(defs.ForwarderBatchAckTimeout+defs.ForwarderAckerStopTimeout+defs.ForwarderBatchSendTimeoutBase+3*defs.IntermediateChannelTimeout) + 10*time.Second
}

func configText(sc Scenario, root string, servers []string, variant string) string {
	keys := "[app]"
	if sc.KeyHost {
		keys = "[app, host]"
	}
	maxBuf := "200MB"
	if sc.TinyQuota {
		maxBuf = fmt.Sprintf("%dB", sc.ChunkBytes*2)
	}
	if sc.QuotaChunks > 0 {
		maxBuf = fmt.Sprintf("%dB", sc.ChunkBytes*sc.QuotaChunks)
	}
	fields := "[facility, level, time, host, app, pid, source, extradata, log, kind]"
	extra := ""
	// "<variant>+moreoutputs": the same configuration with one more output/buffer pair (nothing in the documented reload
	// restrictions forbids that; its upstream is down, its queue is not looked at)
	moreOutputs := strings.HasSuffix(variant, "+moreoutputs")
	variant = strings.TrimSuffix(variant, "+moreoutputs")
	switch variant {
	case "valid":
		fields = "[facility, level, time, host, app, pid, source, extradata, log, kind, added]"
		// the new field is set for some records only (those whose extracted kind is "cls"): a field of the extended schema
		// that is optional must still be empty in every record that does not set it, whatever record object it is built on
		extra = "  - type: if\n    match:\n      kind: cls\n    then:\n      - type: addFields\n        fields:\n          added: reloaded\n"
	case "incompatible":
		keys = "[app, source]"
	case "shifted":
		// valid on its own, but a new field in front moves every field the inputs and the orchestration rely on: the inputs
		// are not restarted at a reload and keep writing to the old positions, so this must be refused
		fields = "[front, facility, level, time, host, app, pid, source, extradata, log, kind]"
	case "renamed":
		// a field the inputs fill is renamed: whether the loader or the compatibility check refuses it, it must be refused
		fields = "[facility, level, time, host, app, pid, source, extradata2, log, kind]"
	}
	// further documented reload restrictions: schema/maxFields, the inputs section and the orchestration type must not change
	maxFields, extractLen, orchestration := "14", "20", "  type: byKeySet\n  keys: " + keys + "\n  tag: e2e.$app\n"
	switch variant {
	case "maxfields":
		maxFields = "15"
	case "inputs":
		extractLen = "21"
	case "orchtype":
		orchestration = "  type: singleton\n  tag: e2e.fixed\n"
	}
	var b strings.Builder
	b.WriteString("anchors: []\nschema:\n  fields: " + fields + "\n  maxFields: " + maxFields + "\n")
	b.WriteString("inputs:\n  - type: syslog\n    address: 127.0.0.1:0\n    levelMapping: [" + strings.Join(levels, ", ") + "]\n    extractions:\n      - type: extractHead\n        key: log\n        pattern: '\\[*\\] '\n        maxLen: " + extractLen + "\n        destKey: kind\n      - type: drop\n        match:\n          kind: xdrop\n        percentage: 100\n        metricLabel: xfiltered\n      - type: drop\n        match:\n          kind: xdrop2\n        percentage: 100\n        metricLabel: xfiltered\n")
	b.WriteString("orchestration:\n" + orchestration)
	metricKeys := "[source]"
	if variant == "incompatible" {
		metricKeys = "[pid]"
	}
	switch variant {
	case "metrickey-overlap":
		// a metric key that is also the (first) orchestration key: every new pipeline would register the label twice
		metricKeys = "[source, app]"
	case "metrickey-duplicate":
		metricKeys = "[source, pid, source]"
	case "metrickey-unknown":
		metricKeys = "[source, nosuchfield]"
	}
	b.WriteString("metricKeys: " + metricKeys + "\n")
	b.WriteString("transformations:\n  - type: drop\n    match:\n      kind: dropme\n    percentage: 100\n    metricLabel: filtered\n  - type: drop\n    match:\n      kind: dropme2\n    percentage: 100\n    metricLabel: filtered\n  - type: parseTime\n    key: time\n    errorLabel: timeError\n" + extra)
	if variant == "invalid" {
		b.WriteString("  - type: nosuchtransform\n")
	}
	b.WriteString("outputBufferPairs:\n")
	for i, mode := range sc.Modes {
		hidden := "[kind, extradata, facility, pid, time]"
		b.WriteString(fmt.Sprintf("  - name: out%d\n    buffer:\n      type: hybridBuffer\n      rootPath: %s\n      maxBufSize: %s\n    output:\n      type: fluentdForward\n      serialization:\n        environmentFields: [host, app]\n        hiddenFields: %s\n      messageMode: %s\n      upstream:\n        address: %s\n        tls: %v\n        secret: \"%s\"\n        maxDuration: %s\n",
			i, filepath.Join(root, fmt.Sprintf("out%d", i)), maxBuf, hidden, mode, servers[i], sc.TLS, secretOf(sc), rotation(sc)))
	}
	if moreOutputs {
		b.WriteString(fmt.Sprintf("  - name: outextra\n    buffer:\n      type: hybridBuffer\n      rootPath: %s\n      maxBufSize: 200MB\n    output:\n      type: fluentdForward\n      serialization:\n        environmentFields: [host, app]\n        hiddenFields: [kind]\n      messageMode: Forward\n      upstream:\n        address: 127.0.0.1:1\n        tls: false\n        secret: \"\"\n        maxDuration: 30m\n",
			filepath.Join(root, "outextra")))
	}
	return b.String()
}

func rotation(sc Scenario) string {
	if sc.RotateMs > 0 {
		return fmt.Sprintf("%dms", sc.RotateMs)
	}
	return "30m"
}

const sharedKey = "verif-shared-key"

func secretOf(sc Scenario) string {
	if sc.Secret {
		return sharedKey
	}
	return ""
}

func payload(stamp string, size int) string {
	b := make([]byte, size)
	for i := range b {
		b[i] = byte('a' + (len(stamp)+i*3)%26)
	}
	return string(b)
}

// line builds the syslog line of a record and its expectation.
func line(gen, conn, seq int, r Rec, key string) ([]byte, *Expected) {
	pri := 8*16 + (seq % 8) // local0.<severity>
	stamp := fmt.Sprintf("g%dc%dk%ss%d", gen, conn, key, seq)
	source := []string{"main.log", "access.log"}[seq%2]
	body := stamp + "#" + payload(stamp, r.Size)
	kind := ""
	if r.Kind == 1 {
		kind = "[dropme] "
		if seq%2 == 1 {
			kind = "[dropme2] " // a second drop rule that reports to the same metric label
		}
	} else if r.Kind == 3 {
		kind = "[xdrop] " // dropped by the drop rule among the input extractions, before the pipeline
		if seq%2 == 1 {
			kind = "[xdrop2] " // a second drop rule among the extractions that reports to the same metric label
		}
	} else if seq%3 == 0 {
		kind = "[cls] "
	}
	l := fmt.Sprintf("<%d>1 2020-01-01T00:00:%02dZ %s %s %d %s - %s%s", pri, seq%60, hosts[r.Host], apps[r.App], 1000+conn, source, kind, body)
	if r.Kind == 2 {
		// record-shaped (passes the record-start test, >= 32 bytes) but rejected by the parser: missing fields
		l = fmt.Sprintf("<%d>1 2020-01-01T00:00:00Z__%s__malformed_no_more_fields", pri, stamp)
	}
	return []byte(l), &Expected{Stamp: stamp, Log: body, App: apps[r.App], Host: hosts[r.Host], Level: levels[seq%8], Source: source, Gen: gen, Conn: conn, Seq: seq, Key: key, Kind: r.Kind, Line: len(l)}
}

type agent struct {
	loader interface {
		StartOrchestrator(logger.Logger) base.Orchestrator
		LaunchInputs(base.Orchestrator) ([]string, func())
	}
	gather    func() vh.Metrics
	gatherErr func() (vh.Metrics, string)
	orch      base.Orchestrator
	addr      string
	stopIn    func()
	reload    func()
}

func startAgent(confPath string, reloader bool) (*agent, error) {
	a := &agent{}
	if reloader {
		ld, err := run.NewReloaderFromConfigFile(confPath, "slogagent_")
		if err != nil {
			return nil, err
		}
		a.loader = ld
		a.gather = func() vh.Metrics { return vh.Gather(ld.GetMetricGatherer()) }
		a.gatherErr = func() (vh.Metrics, string) { return vh.GatherErr(ld.GetMetricGatherer()) }
	} else {
		ld, err := run.NewLoaderFromConfigFile(confPath, "slogagent_")
		if err != nil {
			return nil, err
		}
		a.loader = ld
		a.gather = func() vh.Metrics { return vh.Gather(ld.GetMetricGatherer()) }
		a.gatherErr = func() (vh.Metrics, string) { return vh.GatherErr(ld.GetMetricGatherer()) }
	}
	a.orch = a.loader.StartOrchestrator(logger.Root())
	if ro, ok := a.orch.(*run.ReloadableOrchestrator); ok {
		a.reload = ro.ReloadForVerif
	}
	addrs, stop := a.loader.LaunchInputs(a.orch)
	a.addr, a.stopIn = addrs[0], stop
	return a, nil
}

// orphanQueues lists the queue directories that hold chunk files now and then asks the agent's metrics whether a
// pipeline for that key set exists (its buffer gauges are registered when the pipeline is created). A directory with
// files and no pipeline cannot be a transient state: nobody but its pipeline removes the files.
func orphanQueues(bufRoot string, nOut int, keyHost bool, gather func() vh.Metrics) (int, []string) {
	type q struct{ out, id, dir string }
	var withFiles []q
	for i := 0; i < nOut; i++ {
		oroot := filepath.Join(bufRoot, fmt.Sprintf("out%d", i))
		entries, _ := os.ReadDir(oroot)
		for _, e := range entries {
			if !e.IsDir() {
				continue
			}
			files, _ := os.ReadDir(filepath.Join(oroot, e.Name()))
			has := false
			for _, f := range files {
				if strings.HasSuffix(f.Name(), ".ff") {
					has = true
				}
			}
			if !has {
				continue
			}
			id, err := os.ReadFile(filepath.Join(oroot, e.Name(), ".id"))
			if err != nil {
				continue
			}
			withFiles = append(withFiles, q{fmt.Sprintf("out%d", i), string(id), e.Name()})
		}
	}
	if len(withFiles) == 0 {
		return 0, nil
	}
	m := gather()
	var orphans []string
	for _, w := range withFiles {
		keys := strings.Split(w.id, ",")
		labels := []string{"output=" + w.out, "key_app=" + labelValue(keys[0])}
		if keyHost && len(keys) > 1 {
			labels = append(labels, "key_host="+keys[1])
		}
		if !m.Has("slogagent_process_buffer_pending_chunks", labels...) {
			orphans = append(orphans, w.out+"/"+w.dir)
		}
	}
	return len(withFiles), orphans
}

// labelValue is the metric label value that stands for a key value: label values have to be valid UTF-8, the agent
// replaces invalid sequences by U+FFFD (as it does for the metricKeys fields).
func labelValue(v string) string { return strings.ToValidUTF8(v, "\uFFFD") }

// decodeDir reads every chunk file below an output's root directory.
func decodeDir(root string) (map[string]*vh.ForwardMessage, []string) {
	out := map[string]*vh.ForwardMessage{}
	var errs []string
	_ = filepath.Walk(root, func(path string, info os.FileInfo, err error) error {
		if err != nil || info.IsDir() {
			return nil
		}
		name := filepath.Base(path)
		if !strings.HasSuffix(name, ".ff") {
			return nil
		}
		data, rerr := os.ReadFile(path)
		if rerr != nil {
			errs = append(errs, fmt.Sprintf("%s: %v", path, rerr))
			return nil
		}
		msg, derr := vh.DecodeForwardMessage(data)
		if derr != nil {
			errs = append(errs, fmt.Sprintf("%s (%d bytes): %v", path, len(data), derr))
			return nil
		}
		out[filepath.Base(filepath.Dir(path))+"/"+name] = msg
		return nil
	})
	return out, errs
}

// Run executes a scenario and returns the observations. A scenario that does not finish within ScenarioBudget is
// reported with a goroutine dump (Hang is set) instead of blocking the whole run.
func Run(sc Scenario) *Outcome {
	done := make(chan *Outcome, 1)
	go func() { done <- runScenario(sc) }()
	select {
	case o := <-done:
		return o
	case <-time.After(ScenarioBudget):
		dump := vh.GoroutineDump()
		_ = os.WriteFile(filepath.Join(os.TempDir(), fmt.Sprintf("verif-e2e-hang-%d.txt", os.Getpid())), []byte(dump), 0o644)
		return &Outcome{Sc: sc, Expected: map[string]*Expected{}, Hang: dump}
	}
}

// RealSighup, if set, replaces the direct call of the reload hook: it must make a real SIGHUP reach this process and
// return when the total of slogagent_reloads_total has grown (total is a function that reads it).
var RealSighup func(burst int, total func() float64)

// ScenarioBudget bounds one scenario (normal scenarios take 0.1-3 s).
var ScenarioBudget = 150 * time.Second

func runScenario(sc Scenario) *Outcome {
	out := &Outcome{Sc: sc, Expected: map[string]*Expected{}}
	setDefs(sc)
	oldB, oldR := fluentdforward.SetChunkLimitsForVerif(sc.ChunkBytes, 0)
	defer fluentdforward.SetChunkLimitsForVerif(oldB, oldR)
	root, err := os.MkdirTemp("", "verif-e2e-")
	if err != nil {
		panic(err)
	}
	defer os.RemoveAll(root)
	os.Setenv("VERIF_SCRATCH", root)

	nOut := len(sc.Modes)
	servers := make([]*vh.FakeForward, nOut)
	addrs := make([]string, nOut)
	for i := range servers {
		holder, err := vh.NewPortHolder() // keeps the port ours while the server is "down"
		if err != nil {
			panic(err)
		}
		defer holder.Release()
		s, err := vh.NewFakeForward(holder.Addr)
		if err != nil {
			panic(err)
		}
		s.Secret = secretOf(sc)
		if sc.TLS {
			s.TLS = vh.SelfSignedTLS()
		}
		servers[i], addrs[i] = s, s.Addr
	}
	defer func() {
		for _, s := range servers {
			if s != nil {
				s.Close()
			}
		}
	}()
	confPath := filepath.Join(root, "agent.yml")
	if err := os.WriteFile(confPath, []byte(configText(sc, filepath.Join(root, "buf"), addrs, "")), 0o644); err != nil {
		panic(err)
	}

	activeVariant := "" // the variant in the configuration file (a valid reload stays in effect for later generations)
	for gi, g := range sc.Gens {
		for i, s := range servers {
			down := i < len(g.Down) && g.Down[i]
			if down && s != nil {
				s.Close()
				out.collectServer(i, s)
				servers[i] = nil
			}
			if !down && s == nil {
				ns, err := vh.NewFakeForward(addrs[i])
				if err != nil {
					out.Notes = append(out.Notes, "could not re-listen on "+addrs[i])
					continue
				}
				ns.Secret = secretOf(sc)
				if sc.TLS {
					ns.TLS = vh.SelfSignedTLS()
				}
				servers[i] = ns
			}
			if servers[i] != nil && i < len(g.Upstream) {
				servers[i].SetScript(g.Upstream[i])
			}
		}
		ag, err := startAgent(confPath, sc.Reloader)
		if err != nil {
			panic("agent does not start with the harness configuration: " + err.Error())
		}
		// queued chunks found at start-up must be reattached: every queue directory with chunk files has a pipeline now
		// (the pipelines for listed queues are created synchronously while the orchestrator starts; no traffic yet)
		if _, orphans := orphanQueues(filepath.Join(root, "buf"), nOut, sc.KeyHost, ag.gather); len(orphans) > 0 {
			for _, o := range orphans {
				out.OrphansAtStart = append(out.OrphansAtStart, fmt.Sprintf("generation %d: %s", gi, o))
			}
		}
		// reloads during the traffic
		var rwg sync.WaitGroup
		var reloadCrash *vh.Finding
		if len(g.Reloads) > 0 && ag.reload != nil {
			rwg.Add(1)
			t0 := time.Now()
			go func() {
				defer rwg.Done()
				for _, rs := range g.Reloads {
					if d := time.Until(t0.Add(time.Duration(rs.AtMs) * time.Millisecond)); d > 0 {
						time.Sleep(d)
					}
					fileVariant := rs.Variant
					if rs.Variant == "moreoutputs" {
						fileVariant = activeVariant + "+moreoutputs"
					}
					_ = os.WriteFile(confPath, []byte(configText(sc, filepath.Join(root, "buf"), addrs, fileVariant)), 0o644)
					before := vh.Gather(prometheus.DefaultGatherer)
					ro := ReloadObs{Gen: gi, Variant: rs.Variant, Burst: rs.Burst, Start: time.Now()}
					trigger := ag.reload
					if RealSighup != nil {
						// child-process mode: the parent delivers a real SIGHUP; wait until the handler has finished a reload
						burst := max(1, rs.Burst)
						trigger = func() {
							RealSighup(burst, func() float64 { return vh.Gather(prometheus.DefaultGatherer).Sum("slogagent_reloads_total") })
						}
					}
					if f := vh.Protect(trigger); f != nil { // in the agent this is the SIGHUP goroutine: the process dies
						f.Key = "reload:" + f.Key
						reloadCrash = f
						return
					}
					ro.End = time.Now()
					after := vh.Gather(prometheus.DefaultGatherer)
					ro.OK = after.Sum("slogagent_reloads_total", "status=success") - before.Sum("slogagent_reloads_total", "status=success")
					ro.Failed = after.Sum("slogagent_reloads_total", "status=failure") - before.Sum("slogagent_reloads_total", "status=failure")
					if ro.OK > 0 {
						ro.QueuesWithFiles, ro.Orphans = orphanQueues(filepath.Join(root, "buf"), nOut, sc.KeyHost, ag.gather)
					}
					if rs.Variant == "valid" {
						activeVariant = "valid"
					} else {
						_ = os.WriteFile(confPath, []byte(configText(sc, filepath.Join(root, "buf"), addrs, activeVariant)), 0o644)
					}
					out.Reloads = append(out.Reloads, ro)
				}
			}()
		}
		// clients
		var wg sync.WaitGroup
		var cmu sync.Mutex
		sentLines, sentBytes, openLines := 0, 0, 0
		gracefulConns, eofConns := 0, 0 // connections closed gracefully by the client / of those, the agent closed its side after reading EOF
		var openConns []net.Conn
		stopClients := make(chan struct{})
		for ci, cs := range g.Conns {
			ci, cs := ci, cs
			wg.Add(1)
			go func() {
				defer wg.Done()
				if cs.StartMs > 0 {
					select {
					case <-time.After(time.Duration(cs.StartMs) * time.Millisecond):
					case <-stopClients:
						return
					}
				}
				conn, err := net.Dial("tcp", ag.addr)
				if err != nil {
					cmu.Lock()
					out.Notes = append(out.Notes, "client dial failed: "+err.Error())
					cmu.Unlock()
					return
				}
				if tc, ok := conn.(*net.TCPConn); ok {
					_ = tc.SetNoDelay(true)
				}
				dialAt := time.Now()
				seqByKey := map[string]int{}
				var stream []byte
				pendingLines, pendingBytes := 0, 0 // lines in `stream`, not yet written
				nLines, nBytes := 0, 0             // lines completely written
				var exps, pendingExps []*Expected
				if cs.Garbage {
					stream = append(stream, "this is not a record\n"...)
					pendingLines++
					pendingBytes += len("this is not a record")
				}
				write := func(b []byte) bool {
					select {
					case <-stopClients:
						return false
					default:
					}
					if cs.FragEvery > 0 {
						for len(b) > 0 {
							n := min(cs.FragEvery, len(b))
							if _, err := conn.Write(b[:n]); err != nil {
								return false
							}
							b = b[n:]
						}
						return true
					}
					_, err := conn.Write(b)
					return err == nil
				}
				flush := func() bool {
					if len(stream) == 0 {
						return true
					}
					if !write(stream) {
						return false
					}
					stream = stream[:0]
					nLines += pendingLines
					nBytes += pendingBytes
					exps = append(exps, pendingExps...)
					pendingLines, pendingBytes, pendingExps = 0, 0, nil
					return true
				}
				ok := true
				allRecs := cs.Recs
				if cs.Bulk > 0 {
					allRecs = append(append([]Rec(nil), cs.Recs...), make([]Rec, cs.Bulk)...)
					for i := len(cs.Recs); i < len(allRecs); i++ {
						allRecs[i] = Rec{Size: 3000, Pause: cs.BulkPause}
						if cs.BulkSize > 0 {
							allRecs[i].Size = cs.BulkSize
						}
					}
				}
				for _, r := range allRecs {
					key := apps[r.App]
					if sc.KeyHost {
						key += "." + hosts[r.Host]
					}
					seq := seqByKey[key]
					seqByKey[key]++
					l, e := line(gi, ci, seq, r, key)
					e.DialAt = dialAt
					if r.Pause > 0 {
						if ok = flush(); !ok {
							break
						}
						select {
						case <-time.After(time.Duration(r.Pause) * time.Millisecond):
						case <-stopClients:
						}
					}
					e.QueuedAt = time.Now()
					stream = append(stream, l...)
					stream = append(stream, '\n')
					pendingLines++
					pendingBytes += len(l)
					pendingExps = append(pendingExps, e)
				}
				if ok {
					ok = flush()
				}
				cmu.Lock()
				for _, e := range exps {
					out.Expected[e.Stamp] = e
				}
				for _, e := range pendingExps { // possibly written in part: may or may not have been read
					out.Expected[e.Stamp] = e
				}
				cmu.Unlock()
				if cs.Close == "graceful" && ok {
					// half-close and wait for the agent to close its side: it does so after it has read the end of the stream,
					// i.e. after it has consumed every byte of this connection
					sawEOF := false
					if tc, isTCP := conn.(*net.TCPConn); isTCP {
						_ = tc.CloseWrite()
						_ = conn.SetReadDeadline(time.Now().Add(5 * time.Second))
						var scratch [64]byte
						for {
							_, rerr := conn.Read(scratch[:])
							if rerr == io.EOF {
								sawEOF = true
							}
							if rerr != nil {
								break
							}
						}
					}
					conn.Close()
					cmu.Lock()
					gracefulConns++
					if sawEOF {
						eofConns++
					}
					sentLines += nLines
					sentBytes += nBytes
					for _, e := range exps {
						e.Must = true
					}
					cmu.Unlock()
				} else {
					cmu.Lock()
					openLines += nLines
					openConns = append(openConns, conn)
					cmu.Unlock()
				}
			}()
		}
		if g.StopMid {
			time.Sleep(time.Duration(g.StopAfter) * time.Millisecond)
			close(stopClients)
		}
		wg.Wait()
		if !g.StopMid {
			close(stopClients)
		}
		rwg.Wait()
		if reloadCrash != nil {
			out.Crash = reloadCrash
			return out
		}
		// wait until the agent has read everything that was sent on gracefully closed connections
		drained := false
		deadline := time.Now().Add(4 * time.Second)
		allEOF := eofConns == gracefulConns // the agent has consumed every byte of every gracefully closed connection
		if allEOF {
			deadline = time.Now().Add(500 * time.Millisecond) // the counters of a connection are published when its sink is closed, an instant later
		}
		for time.Now().Before(deadline) {
			m := ag.gather()
			if int(m.Sum("slogagent_input_passed_records_total")+m.Sum("slogagent_input_dropped_records_total")) >= sentLines+openLines {
				drained = true
				break
			}
			time.Sleep(3 * time.Millisecond)
		}
		if allEOF {
			// whatever the counters say: everything on those connections was handed to the parser (the counters are final
			// after the stop, which is when the oracles read them)
			drained = true
		}
		if g.Reload != "" && ag.reload != nil {
			_ = os.WriteFile(confPath, []byte(configText(sc, filepath.Join(root, "buf"), addrs, g.Reload)), 0o644)
			ag.reload()
			if g.Reload != "valid" {
				_ = os.WriteFile(confPath, []byte(configText(sc, filepath.Join(root, "buf"), addrs, "")), 0o644)
			}
		}
		if !g.StopMid && g.StopAfter > 0 {
			// wait for deliveries, but stop early once everything must-have was acknowledged on every output
			waitUntil := time.Now().Add(time.Duration(g.StopAfter) * time.Millisecond)
			for time.Now().Before(waitUntil) {
				if out.allAcked(servers) {
					break
				}
				time.Sleep(5 * time.Millisecond)
			}
		}
		if !drained {
			cmu.Lock()
			for _, e := range out.Expected {
				if e.Gen == gi {
					e.Must = false
				}
			}
			cmu.Unlock()
		}
		var upState []string
		for i := range servers {
			st := "healthy"
			if servers[i] == nil {
				st = "down"
			}
			upState = append(upState, st)
		}
		// a reload request (SIGHUP) that races with the stop request: the reload is triggered ReloadAtStopUs microseconds
		// after the stop began (negative: the stop begins that long after the reload was triggered)
		var raceDone chan *vh.Finding
		var raceEnd time.Time
		if g.ReloadAtStopUs != 0 && ag.reload != nil && RealSighup == nil {
			off := time.Duration(g.ReloadAtStopUs) * time.Microsecond
			raceDone = make(chan *vh.Finding, 1)
			go func() {
				if off > 0 {
					time.Sleep(off)
				}
				f := vh.Protect(ag.reload)
				raceEnd = time.Now()
				raceDone <- f
			}()
			if off < 0 {
				time.Sleep(-off)
			}
		}
		// graceful stop, timed
		t0 := time.Now()
		done := make(chan struct{})
		var stopEnd time.Time
		go func() {
			ag.stopIn()
			ag.orch.Shutdown()
			stopEnd = time.Now()
			close(done)
		}()
		bound := StopBound()
		select {
		case <-done:
		case <-time.After(bound + 20*time.Second):
			out.Crash = vh.Fail("e2e:stop-hang", "generation %d: shutdownInputs()+Shutdown() did not return within %v (bound %v)\n%s", gi, bound+20*time.Second, bound, vh.GoroutineDump())
			return out
		}
		stopMs := float64(time.Since(t0).Microseconds()) / 1000
		if raceDone != nil {
			select {
			case f := <-raceDone:
				if f != nil {
					f.Key = "reload-at-stop:" + f.Key
					out.Crash = f
					return out
				}
			case <-time.After(bound + 20*time.Second):
				out.Crash = vh.Fail("reload-at-stop:hang", "generation %d: a reload triggered %d us after the stop request did not return within %v\n%s", gi, g.ReloadAtStopUs, bound+20*time.Second, vh.GoroutineDump())
				return out
			}
			if raceEnd.After(stopEnd) {
				out.Notes = append(out.Notes, "reload-at-stop: the reload returned after the stop")
			} else {
				out.Notes = append(out.Notes, "reload-at-stop: the reload returned before the stop")
			}
		}
		for _, c := range openConns {
			c.Close()
		}
		so := StopObs{Gen: gi, StopMs: stopMs, InputDrained: drained, SentLines: sentLines, SentBytes: sentBytes, OpenLines: openLines, UpstreamAtStop: upState}
		so.Metrics, so.MetricsErr = ag.gatherErr()
		for i := 0; i < nOut; i++ {
			d, errs := decodeDir(filepath.Join(root, "buf", fmt.Sprintf("out%d", i)))
			so.Disk = append(so.Disk, d)
			so.DiskErrors = append(so.DiskErrors, errs...)
		}
		for i := 0; i < nOut; i++ {
			as, ac, sc2 := map[string]bool{}, map[string]int{}, map[string]bool{}
			msgs := append([]*vh.RecvMessage(nil), out.serverSoFar(i)...)
			if servers[i] != nil {
				msgs = append(msgs, servers[i].Snapshot()...)
			}
			for _, m := range msgs {
				sc2[m.Msg.OptChunk] = true
				if m.Acked {
					ac[m.Msg.OptChunk]++
					for _, ev := range m.Msg.Events {
						as[stampOf(ev.Fields["log"])] = true
					}
				}
			}
			so.AckedStamps = append(so.AckedStamps, as)
			so.AckedChunks = append(so.AckedChunks, ac)
			so.SeenChunks = append(so.SeenChunks, sc2)
		}
		out.Stops = append(out.Stops, so)
	}
	for i, s := range servers {
		if s != nil {
			out.collectServer(i, s)
		}
	}
	return out
}

func (o *Outcome) collectServer(i int, s *vh.FakeForward) {
	for len(o.Servers) <= i {
		o.Servers = append(o.Servers, nil)
	}
	o.instances++
	for _, m := range s.Snapshot() {
		m.Conn += o.instances * 100000 // connection indexes restart with every server instance
		o.Servers[i] = append(o.Servers[i], m)
	}
	o.ServerErrs = append(o.ServerErrs, s.DecodeErrors...)
}

// allAcked reports whether every must-have record has been acknowledged by every (live) server.
func (o *Outcome) allAcked(servers []*vh.FakeForward) bool {
	for i, s := range servers {
		if s == nil {
			return false
		}
		acked := map[string]bool{}
		for _, m := range append(append([]*vh.RecvMessage(nil), o.serverSoFar(i)...), s.Snapshot()...) {
			if m.Acked {
				for _, ev := range m.Msg.Events {
					acked[stampOf(ev.Fields["log"])] = true
				}
			}
		}
		for _, e := range o.Expected {
			if e.Must && e.Kind == 0 && !acked[e.Stamp] {
				return false
			}
		}
	}
	return true
}

func (o *Outcome) serverSoFar(i int) []*vh.RecvMessage {
	if i < len(o.Servers) {
		return o.Servers[i]
	}
	return nil
}

func stampOf(log string) string {
	if i := strings.IndexByte(log, '#'); i > 0 {
		return log[:i]
	}
	return ""
}

func sortedStamps(m map[string]bool) []string {
	var l []string
	for k := range m {
		l = append(l, k)
	}
	sort.Strings(l)
	return l
}
