// C15 — transforms and matchers behave as documented for all values.
package c15transform

import (
	"fmt"
	"sort"
	"strings"
	"testing"

	"github.com/relex/gotils/logger"
	"github.com/relex/slog-agent/base"
	"github.com/relex/slog-agent/base/bconfig"
	"github.com/relex/slog-agent/base/bsupport"
	"github.com/relex/slog-agent/base/btest"
	"github.com/relex/slog-agent/transform"
	"github.com/relex/slog-agent/util"
	"pgregory.net/rapid"

	"verifharness/tprog"
	"verifharness/vh"
)

func init() {
	vh.QuietLogs(logger.ErrorLevel)
	transform.Register()
}

type RecIn struct {
	Values    [][]byte `json:"values"` // one per tprog.Fields
	Unescaped bool     `json:"unescaped"`
}

type Case struct {
	Prog []tprog.Step `json:"prog"`
	Recs []RecIn      `json:"recs"`
}

func build(prog []tprog.Step) ([]base.LogTransformFunc, base.LogSchema, btest.LookupStubCustomerCounterFunc, error) {
	schema := base.MustNewLogSchema(tprog.Fields)
	var list []bconfig.LogTransformConfigHolder
	yml := tprog.YAML(prog, "")
	if err := util.UnmarshalYamlString(yml, &list); err != nil {
		return nil, schema, nil, fmt.Errorf("yaml: %w\n%s", err, yml)
	}
	if err := bsupport.VerifyTransformConfigs(list, schema, "prog"); err != nil {
		return nil, schema, nil, fmt.Errorf("verify: %w\n%s", err, yml)
	}
	reg, lookup := btest.NewStubLogCustomCounterRegistry()
	return bsupport.NewTransformsFromConfig(list, schema, logger.Root(), reg), schema, lookup, nil
}

func run(c Case) vh.Result {
	res := vh.Result{}
	tfs, schema, lookup, err := build(c.Prog)
	if err != nil {
		panic("harness generated a program that the loader rejects: " + err.Error())
	}
	alloc := base.NewLogAllocator(schema, 1)
	labels := tprog.AllLabels(c.Prog)
	drops := tprog.DropSteps(c.Prog)
	counterOf := func(l string) int64 { n, _ := lookup(l); return n }
	refEvents := map[string]int{}
	changedOrDropped := false
	type liveRec struct {
		idx  int
		rec  *base.LogRecord
		want []string
	}
	var alive []liveRec
	for ri, in := range c.Recs {
		// the record's values are substrings of one mutable backing buffer, like records coming from the parser
		var raw []byte
		raw = append(raw, "HEADER "...)
		offs := make([]int, len(in.Values))
		for i, v := range in.Values {
			offs[i] = len(raw)
			raw = append(raw, v...)
			raw = append(raw, ' ')
		}
		for len(raw) < 1100 { // > InputLogMinRecordBytesToPool so that the pooled, reused backing buffer path is taken
			raw = append(raw, '.')
		}
		rec, s := alloc.NewRecord(raw)
		rec.RawLength = len(raw)
		rec.Unescaped = in.Unescaped
		model := &tprog.Rec{Fields: map[string]string{}, Unescaped: in.Unescaped}
		for i, name := range tprog.Fields {
			rec.Fields[i] = s[offs[i] : offs[i]+len(in.Values[i])]
			model.Fields[name] = string(in.Values[i])
		}
		before := map[string]int64{}
		for _, l := range labels {
			before[l] = counterOf(l)
		}
		real := bsupport.RunTransforms(rec, tfs)
		delta := map[string]int64{}
		for _, l := range labels {
			delta[l] = counterOf(l) - before[l]
		}
		env := &tprog.Env{SampledDropped: func(label string) bool { return delta[label] > 0 }}
		refPass := tprog.Run(c.Prog, model, env)
		for l, n := range env.Events {
			refEvents[l] += n
		}
		if (real == base.PASS) != refPass {
			res.Violation = vh.Fail("transform:pass-drop", "record %d: implementation %s, reference %s\n%s", ri, passStr(real == base.PASS), passStr(refPass), describe(c, ri))
			return res
		}
		if !refPass {
			changedOrDropped = true
		}
		if refPass {
			for i, name := range tprog.Fields {
				got, want := string(rec.Fields[i]), model.Fields[name]
				if got != want {
					res.Violation = vh.Fail("transform:field", "record %d field %s: got %q want %q\n%s", ri, name, got, want, describe(c, ri))
					return res
				}
				if want != string(in.Values[i]) {
					changedOrDropped = true
				}
			}
			if rec.Unescaped != model.Unescaped {
				res.Violation = vh.Fail("transform:unescaped-flag", "record %d: Unescaped=%v reference %v\n%s", ri, rec.Unescaped, model.Unescaped, describe(c, ri))
				return res
			}
		}
		// labelled counters must equal the reference's events for this record
		for _, l := range labels {
			if int64(env.Events[l]) != delta[l] {
				res.Violation = vh.Fail("transform:label-counter", "record %d: label %q counted %d times, reference %d\n%s", ri, l, delta[l], env.Events[l], describe(c, ri))
				return res
			}
		}
		// sampled dropping tracks the percentage to within one record at every prefix of the matched stream
		for l, pct := range drops {
			if pct == 100 {
				continue
			}
			d, r := counterOf(l), counterOf("!"+l)
			matched := d + r
			dev := float64(d) - float64(pct)*float64(matched)/100
			if dev > 1 || dev < -1 {
				res.Violation = vh.Fail("transform:sampling-bound", "after record %d: drop %q at %d%%: %d of %d matched records dropped (deviation %.2f)", ri, l, pct, d, matched, dev)
				return res
			}
		}
		if refPass {
			// the record stays alive while the following ones are transformed (as the records of one read do when the
			// transforms run among the input's extractions): its values are looked at again at the end
			want := make([]string, len(tprog.Fields))
			for i, name := range tprog.Fields {
				want[i] = model.Fields[name]
			}
			alive = append(alive, liveRec{ri, rec, want})
		} else {
			alloc.Release(rec)
		}
	}
	for _, l := range alive {
		for i, name := range tprog.Fields {
			if got := string(l.rec.Fields[i]); got != l.want[i] {
				res.Violation = vh.Fail("transform:value-changed-by-later-record", "record %d field %s was %q right after its own transformation and is %q after the following records were transformed (a result that lives in memory owned by the transform)\n%s", l.idx, name, l.want[i], got, describe(c, l.idx))
				return res
			}
		}
		alloc.Release(l.rec)
	}
	res.NonTrivial = changedOrDropped
	if changedOrDropped {
		res.Classes = append(res.Classes, "program-changed-or-dropped-a-record")
	}
	for _, t := range stepTypes(c.Prog) {
		res.Classes = append(res.Classes, "uses-"+t)
	}
	if d := depth(c.Prog); d > 1 {
		res.Classes = append(res.Classes, fmt.Sprintf("nesting-depth-%d", d))
	}
	return res
}

func passStr(p bool) string {
	if p {
		return "PASS"
	}
	return "DROP"
}

func describe(c Case, ri int) string {
	var b strings.Builder
	b.WriteString(tprog.YAML(c.Prog, ""))
	if ri < len(c.Recs) {
		for i, name := range tprog.Fields {
			fmt.Fprintf(&b, "%s=%q ", name, c.Recs[ri].Values[i])
		}
		fmt.Fprintf(&b, "unescaped=%v", c.Recs[ri].Unescaped)
	}
	return b.String()
}

func stepTypes(steps []tprog.Step) []string {
	set := map[string]bool{}
	var walk func([]tprog.Step)
	walk = func(l []tprog.Step) {
		for _, s := range l {
			set[s.T] = true
			walk(s.Then)
			walk(s.Steps)
			for _, cs := range s.Cases {
				walk(cs.Then)
			}
		}
	}
	walk(steps)
	var out []string
	for t := range set {
		out = append(out, t)
	}
	sort.Strings(out)
	return out
}

func depth(steps []tprog.Step) int {
	d := 0
	for _, s := range steps {
		sub := 0
		sub = max(sub, depth(s.Then), depth(s.Steps))
		for _, cs := range s.Cases {
			sub = max(sub, depth(cs.Then))
		}
		d = max(d, 1+sub)
	}
	return d
}

func gen(t *rapid.T) Case {
	var c Case
	c.Prog = tprog.GenProgram(t, 2, true)
	lits, lens := tprog.Literals(c.Prog)
	nrec := rapid.IntRange(1, 12).Draw(t, "nrecs")
	if len(tprog.SampledLabels(c.Prog)) > 0 && rapid.Bool().Draw(t, "long") {
		nrec = rapid.IntRange(20, 150).Draw(t, "nrecsLong")
	}
	var proto RecIn
	for i := 0; i < nrec; i++ {
		var r RecIn
		if i > 0 && rapid.IntRange(0, 2).Draw(t, "repeat") == 0 {
			r = proto // repeat the previous record (streams that keep matching the same rules)
		} else {
			for range tprog.Fields {
				r.Values = append(r.Values, tprog.GenValue(t, lits, lens))
			}
			r.Unescaped = rapid.IntRange(0, 3).Draw(t, "unescaped") == 0
		}
		proto = r
		c.Recs = append(c.Recs, r)
	}
	return c
}

func TestC15Programs(t *testing.T) {
	vh.Run(t, vh.Spec[Case]{
		Name: "programs", Gen: gen, Run: run, Quick: 12000, Thorough: 150000,
		Rule: "transform programs from a grammar (addFields with $v/${v}/${v[a:b]} a,b in -6..6, delFields, mapValue, if/switch/block nested to depth 3, drop at 100% and sampled 1-99%, extractHead/extractTail with boundaries, classes and search range, truncate, unescape, replace, extract; all match operators) rendered as YAML and loaded through VerifyTransformConfigs+NewTransformsFromConfig; records of 6 fields whose values are substrings of one pooled backing buffer, biased to the program's literals and lengths (multi-byte runes across cuts, escapes, control characters, invalid bytes); oracle = independent reference interpreter (fields, PASS/DROP, unescaped flag, per-label counters; sampled drop bounded to within one record at every prefix); non-trivial = the program changed or dropped at least one record",
	})
}
