// C03 — the hybrid buffer conserves chunks in FIFO order within disk and memory bounds.
package c03buffer

import (
	"bytes"
	"fmt"
	"os"
	"path/filepath"
	"sort"
	"strings"
	"sync"
	"testing"
	"time"

	"github.com/relex/gotils/logger"
	"github.com/relex/gotils/promexporter/promreg"
	"github.com/relex/slog-agent/base"
	"github.com/relex/slog-agent/buffer/hybridbuffer"
	"github.com/relex/slog-agent/defs"
	"github.com/relex/slog-agent/util"
	"pgregory.net/rapid"

	"verifharness/vh"
)

func init() {
	vh.QuietLogs(logger.FatalLevel)
	defs.IntermediateChannelTimeout = 60 * time.Second // production value; in the buffer it only bounds the give-up of Destroy. Accept must not depend on it: the 20 s watchdog below is far shorter
	defs.ForwarderBatchAckTimeout = 500 * time.Millisecond
	defs.BufferShutDownTimeout = 300 * time.Millisecond
}

type Op struct {
	K    string `json:"k"`              // accept | confirm | hold | stall | stopConsumer | restart | arm
	Size int    `json:"size,omitempty"` // accept: chunk size in bytes
	N    int    `json:"n,omitempty"`    // confirm/hold: number of chunks to take; accept: repeat count
}

type Case struct {
	MaxMem   int   `json:"maxMem"`   // defs.BufferMaxNumChunksInMemory
	MaxQueue int   `json:"maxQueue"` // defs.BufferMaxNumChunksInQueue
	MaxBytes int64 `json:"maxBytes"` // maxBufSize
	BadDir   bool  `json:"badDir"`   // the queue directory is unusable (a regular file is in its place)
	BadKind  int   `json:"badKind,omitempty"` // 1: a regular file is in the place of the PARENT of the root: the directory can be neither created nor opened
	Ops      []Op  `json:"ops"`
}

func chunkData(id string, size int) []byte {
	b := make([]byte, size)
	for i := range b {
		b[i] = id[(i*7+len(id)-1)%len(id)] ^ byte(i)
	}
	return b
}

// consumer is the harness-controlled ChunkConsumer
type consumer struct {
	args     base.ChunkConsumerArgs
	cmd      chan Op
	done     chan struct{}
	ack      chan int
	mu       sync.Mutex
	received []base.LogChunk // everything received in this generation, in order
	held     []base.LogChunk
	confirmed map[string]bool
	handedBack []base.LogChunk
	handedEarly int // of those, the first n were handed back by a consumer that ended mid-run (no other writer at that time)
	stopEarly bool
}

func newConsumer(args base.ChunkConsumerArgs, confirmed map[string]bool) *consumer {
	c := &consumer{args: args, cmd: make(chan Op), done: make(chan struct{}), ack: make(chan int), confirmed: confirmed}
	go c.run()
	return c
}

func (c *consumer) take(n int, confirm bool) int {
	got := 0
	for got < n {
		timer := time.NewTimer(150 * time.Millisecond)
		select {
		case ch, ok := <-c.args.InputChannel:
			timer.Stop()
			if !ok {
				return got
			}
			cp := base.LogChunk{ID: ch.ID, Data: append([]byte(nil), ch.Data...), Saved: ch.Saved}
			c.mu.Lock()
			c.received = append(c.received, cp)
			c.mu.Unlock()
			if confirm {
				c.args.OnChunkConsumed(ch)
				c.mu.Lock()
				c.confirmed[ch.ID] = true
				c.mu.Unlock()
			} else {
				c.mu.Lock()
				c.held = append(c.held, ch)
				c.mu.Unlock()
			}
			got++
		case <-timer.C:
			return got
		}
	}
	return got
}

func (c *consumer) finish() {
	c.mu.Lock()
	held := c.held
	c.held = nil
	c.handedBack = append(c.handedBack, held...)
	if c.stopEarly {
		c.handedEarly += len(held)
	}
	c.mu.Unlock()
	for _, ch := range held {
		c.args.OnChunkLeftover(ch)
	}
	c.args.OnFinished()
	close(c.done)
}

func (c *consumer) run() {
	for {
		select {
		case op := <-c.cmd:
			switch op.K {
			case "confirm":
				c.ack <- c.take(op.N, true)
			case "hold":
				c.ack <- c.take(op.N, false)
			case "stopConsumer":
				c.stopEarly = true
				c.finish()
				c.ack <- 0
				return
			}
		case <-c.args.InputClosed.Channel():
			c.finish()
			return
		}
	}
}

type gen struct {
	b        base.ChunkBufferer
	cons     *consumer
	mf       *promreg.MetricFactory
	consDone bool
}

// dirBytes sums the sizes of the chunk files in the queue directory (0 if it does not exist yet).
func dirBytes(dir string, match func(string) bool) int64 {
	if dir == "" {
		return 0
	}
	var total int64
	entries, _ := os.ReadDir(dir)
	for _, e := range entries {
		if match(e.Name()) {
			if info, err := e.Info(); err == nil {
				total += info.Size()
			}
		}
	}
	return total
}

func metric(mf *promreg.MetricFactory, name string, labels ...string) float64 {
	return vh.Gather(mf).Sum("c03_buffer_"+name, labels...)
}

func runCase(c Case) vh.Result {
	res := vh.Result{}
	defs.BufferMaxNumChunksInMemory = c.MaxMem
	defs.BufferMaxNumChunksInQueue = c.MaxQueue
	root, err := os.MkdirTemp("", "verif-c03-")
	if err != nil {
		panic(err)
	}
	defer os.RemoveAll(root)
	cfgRoot := root
	if c.BadDir && c.BadKind == 1 {
		if err := os.WriteFile(filepath.Join(root, "blocker"), []byte("not a directory"), 0o644); err != nil {
			panic(err)
		}
		cfgRoot = filepath.Join(root, "blocker", "q")
	}
	cfg := &hybridbuffer.Config{}
	if err := util.UnmarshalYamlString(fmt.Sprintf("type: hybridBuffer\nrootPath: %s\nmaxBufSize: %dB\n", cfgRoot, c.MaxBytes), cfg); err != nil {
		panic(err)
	}
	match := func(id string) bool { return strings.HasSuffix(id, ".ff") }
	const bufferID = "key1,key2"
	var qdir string
	if c.BadDir && c.BadKind == 0 {
		// occupy the place of the queue directory with a regular file: find the name by creating it once
		probe := cfg.NewBufferer(logger.Root(), bufferID, match, promreg.NewMetricFactory("probe_", nil, nil), false)
		probe.Start()
		probe.Destroy()
		entries, _ := os.ReadDir(root)
		for _, e := range entries {
			if e.IsDir() {
				qdir = filepath.Join(root, e.Name())
			}
		}
		os.RemoveAll(qdir)
		if err := os.WriteFile(qdir, []byte("not a directory"), 0o644); err != nil {
			panic(err)
		}
	}

	confirmed := map[string]bool{}     // chunk ID -> confirmed by the consumer (ever)
	produced := map[string][]byte{}    // chunk ID -> bytes
	var acceptedOrder []string         // all accepted IDs in order (all generations)
	seq := 0
	generation := 0
	var g *gen
	droppedTotal := 0.0 // sum over generations of dropped_chunks_total
	var diskAtStart int64 // bytes in the queue directory when the current generation started
	spill, restartAfterHandback, handbackSeen, armed := false, false, false, false
	slowMachine := false
	emptiedForGen := map[string]int{} // ... and the generation that finds each of them
	emptied := map[string]bool{} // chunk files emptied by the harness before a restart: corrupt, to be removed and counted as dropped once loaded
	damaged := false

	overCapacity := false
	start := func() {
		generation++
		if qdir != "" && !c.BadDir {
			n := 0
			entries, _ := os.ReadDir(qdir)
			for _, e := range entries {
				if match(e.Name()) {
					n++
				}
			}
			if n > c.MaxQueue {
				// More chunk files than BufferMaxNumChunksInQueue (documented as the maximum number of queued files): the
				// start skips the excess files and does not count them. Only reachable because the capacity is scaled down
				// to 4-64 here (production: 500 000, with at most 501 chunks in memory); the size bound is not checked
				// for the rest of such a history (DESIGN.md section 6).
				overCapacity = true
			}
		}
		mf := promreg.NewMetricFactory("c03_", nil, nil)
		b := cfg.NewBufferer(logger.Root(), bufferID, match, mf.AddOrGetPrefix("buffer_", []string{"output"}, []string{"out"}), false)
		b.Start()
		g = &gen{b: b, mf: mf}
		g.cons = newConsumer(b.RegisterNewConsumer(), confirmed)
		if qdir == "" && !c.BadDir {
			entries, _ := os.ReadDir(root)
			for _, e := range entries {
				if e.IsDir() {
					qdir = filepath.Join(root, e.Name())
				}
			}
		}
	}
	listFiles := func() map[string][]byte {
		out := map[string][]byte{}
		if qdir == "" {
			entries, _ := os.ReadDir(root)
			for _, e := range entries {
				if e.IsDir() {
					qdir = filepath.Join(root, e.Name())
				}
			}
		}
		entries, _ := os.ReadDir(qdir)
		for _, e := range entries {
			if match(e.Name()) {
				b, _ := os.ReadFile(filepath.Join(qdir, e.Name()))
				out[e.Name()] = b
			}
		}
		return out
	}

	// destroy + oracle at quiescence; returns a finding or nil
	destroy := func() *vh.Finding {
		filesBefore := listFiles()
		_ = filesBefore
		doneCh := make(chan struct{})
		go func() { g.b.Destroy(); close(doneCh) }()
		select {
		case <-doneCh:
		case <-time.After(20 * time.Second):
			dump := vh.GoroutineDump()
			if !busyNotBlocked(dump) {
				return vh.Fail("buffer:destroy-hang", "Destroy did not return within 20s\n%s", dump)
			}
			// a goroutine of the buffer sits in a file system call or is waiting for a CPU: the machine is slow (seen with
			// the disk saturated by other jobs), nothing is blocked. Wait for the operation instead of judging it.
			slowMachine = true
			select {
			case <-doneCh:
			case <-time.After(10 * time.Minute):
				return vh.Fail("buffer:destroy-hang", "Destroy did not return within 10 min\n%s", vh.GoroutineDump())
			}
		}
		select {
		case <-g.cons.done:
		case <-time.After(5 * time.Second):
			return vh.Fail("buffer:consumer-not-released", "consumer was not told to stop")
		}
		if !g.b.Stopped().Wait(5 * time.Second) {
			return vh.Fail("buffer:not-stopped", "bufferer not stopped after Destroy")
		}
		files := listFiles()
		dropped := metric(g.mf, "dropped_chunks_total")
		droppedTotal += dropped
		if len(g.cons.handedBack) > 0 {
			handbackSeen = true
		}
		// 1. received chunks: bytes identical, never a chunk that was confirmed earlier, order = model order
		g.cons.mu.Lock()
		received := append([]base.LogChunk(nil), g.cons.received...)
		handed := append([]base.LogChunk(nil), g.cons.handedBack...)
		g.cons.mu.Unlock()
		pos := map[string]int{}
		for i, id := range acceptedOrder {
			pos[id] = i
		}
		last := -1
		seenThisGen := map[string]bool{}
		for _, ch := range received {
			want, ok := produced[ch.ID]
			if !ok {
				return vh.Fail("buffer:unknown-chunk", "consumer received chunk %s that was never accepted", ch.ID)
			}
			if !bytes.Equal(ch.Data, want) {
				return vh.Fail("buffer:chunk-altered", "chunk %s reached the consumer with %d bytes, produced %d bytes (or different content)", ch.ID, len(ch.Data), len(want))
			}
			if seenThisGen[ch.ID] {
				return vh.Fail("buffer:delivered-twice", "chunk %s delivered twice in one generation", ch.ID)
			}
			seenThisGen[ch.ID] = true
			if pos[ch.ID] <= last {
				return vh.Fail("buffer:order", "chunk %s (position %d) delivered after position %d: not in acceptance/creation order\n received: %s", ch.ID, pos[ch.ID], last, ids(received))
			}
			last = pos[ch.ID]
		}
		// 2. conservation: every accepted chunk is confirmed (file gone), or a file with identical bytes, or dropped (counted)
		unaccounted := 0
		for _, id := range acceptedOrder {
			data, onDisk := files[id]
			switch {
			case confirmed[id] && onDisk:
				return vh.Fail("buffer:confirmed-file-remains", "chunk %s was confirmed by the consumer but its file is still in the queue directory", id)
			case confirmed[id]:
			case onDisk && emptied[id] && len(data) == 0:
				// the emptied file has not been loaded yet (the consumer never got that far): still pending, as it was found
			case onDisk:
				if !bytes.Equal(data, produced[id]) {
					return vh.Fail("buffer:file-altered", "file of chunk %s has %d bytes, produced %d (or different content)", id, len(data), len(produced[id]))
				}
			default:
				unaccounted++
			}
		}
		for id := range files {
			if _, ok := produced[id]; !ok {
				return vh.Fail("buffer:unknown-file", "file %s in the queue directory was never accepted", id)
			}
		}
		if float64(unaccounted) > droppedTotal {
			key := "buffer:chunk-lost"
			for _, ch := range handed {
				if _, onDisk := files[ch.ID]; !onDisk && !confirmed[ch.ID] {
					key = "buffer:leftover-lost"
				}
			}
			return vh.Fail(key, "generation %d: %d accepted chunks are neither confirmed nor on disk, but dropped_chunks_total sums to only %v (accepted %d, confirmed %d, files %d, handed back %d)", generation, unaccounted, droppedTotal, len(acceptedOrder), len(confirmed), len(files), len(handed))
		}
		if float64(unaccounted) < droppedTotal {
			return vh.Fail("buffer:dropped-overcounted", "generation %d: dropped_chunks_total sums to %v but only %d accepted chunks are neither confirmed nor on disk: a chunk counted as dropped is still in the queue directory or was delivered", generation, droppedTotal, unaccounted)
		}
		// 3. disk bound
		var total, slack int64
		for _, d := range files {
			total += int64(len(d))
		}
		// only chunks handed back while the feeder saves the queue at the stop can race with it for the last bytes of
		// the quota; a consumer that ended mid-run handed its chunks back with no other writer around
		for i, ch := range handed {
			if i >= g.cons.handedEarly {
				slack += int64(len(ch.Data))
			}
		}
		bound := max(c.MaxBytes, diskAtStart) + slack
		if total > bound && !overCapacity {
			return vh.Fail("buffer:over-quota", "queue files total %d bytes, limit %d (on disk when this generation started: %d, handed back at this shutdown: %d)", total, c.MaxBytes, diskAtStart, slack)
		}
		diskAtStart = total
		if len(files) > 0 && !c.BadDir {
			spill = true
		}
		return nil
	}

	start()
	for oi, op := range c.Ops {
		switch op.K {
		case "accept":
			for r := 0; r < max(1, op.N); r++ {
				seq++
				id := fmt.Sprintf("%019d-%08d.ff", 1700000000000000000+int64(seq), 0)
				data := chunkData(id, op.Size)
				produced[id] = data
				acceptedOrder = append(acceptedOrder, id)
				persBefore, dropBefore := 0.0, 0.0
				if armed {
					persBefore = metric(g.mf, "input_chunks_total", "state=persistent")
					dropBefore = metric(g.mf, "dropped_chunks_total")
				}
				// a chunk may be discarded at Accept only for a documented reason: the disk limit would be exceeded, the
				// queue is full, or the directory cannot be written. Files leave the directory only when the consumer
				// confirms (inside this goroutine's operations), so the directory size cannot change under this Accept.
				checkDrop := !c.BadDir && !overCapacity
				for victim := range emptied {
					// an emptied file that is still in the directory may be loaded, found corrupt and counted as dropped at
					// any moment - also during this Accept; the rule cannot tell the two apart, so it is not applied then.
					// Nor in the rest of the generation that found the file: it is removed an instant before it is counted.
					if _, err := os.Stat(filepath.Join(qdir, victim)); err == nil || emptiedForGen[victim] == generation {
						checkDrop = false
					}
				}
				var dirBefore int64
				var m0 vh.Metrics
				if checkDrop {
					dirBefore = dirBytes(qdir, match)
					m0 = vh.Gather(g.mf)
				}
				done := make(chan struct{})
				go func() {
					g.b.Accept(base.LogChunk{ID: id, Data: append([]byte(nil), data...)})
					close(done)
				}()
				select {
				case <-done:
				case <-time.After(20 * time.Second):
					dump := vh.GoroutineDump()
					if !busyNotBlocked(dump) {
						res.Violation = vh.Fail("buffer:accept-blocked", "op %d: Accept did not return within 20s while the consumer stalls\n%s", oi, dump)
						return res
					}
					slowMachine = true // see destroy: in a system call or runnable, i.e. slow, not blocked
					select {
					case <-done:
					case <-time.After(10 * time.Minute):
						res.Violation = vh.Fail("buffer:accept-blocked", "op %d: Accept did not return within 10 min while the consumer stalls\n%s", oi, vh.GoroutineDump())
						return res
					}
				}
				if checkDrop {
					m1 := vh.Gather(g.mf)
					dd := m1.Sum("c03_buffer_dropped_chunks_total") - m0.Sum("c03_buffer_dropped_chunks_total")
					dio := m1.Sum("c03_buffer_io_errors_total") - m0.Sum("c03_buffer_io_errors_total")
					queued := m0.Sum("c03_buffer_queued_chunks")
					if dd >= 1 && dio == 0 && dirBefore+int64(len(data)) <= c.MaxBytes && queued < float64(c.MaxQueue-1) && qdir != "" {
						res.Violation = vh.Fail("buffer:dropped-below-quota", "op %d: a chunk of %d bytes was discarded at Accept (dropped_chunks_total +%v, no I/O error) although the queue directory held only %d bytes of the %d allowed and %v of %d queue slots were in use", oi, len(data), dd, dirBefore, c.MaxBytes, queued, c.MaxQueue)
						res.NonTrivial = true
						return res
					}
				}
				if armed {
					pers := metric(g.mf, "input_chunks_total", "state=persistent") - persBefore
					drop := metric(g.mf, "dropped_chunks_total") - dropBefore
					if pers+drop < 1 {
						res.Violation = vh.Fail("buffer:memory-bound", "op %d: with the consumer stalled and >= %d chunks waiting in the in-memory window, an accepted chunk was neither unloaded to disk nor dropped (persistent +%v, dropped +%v)", oi, c.MaxMem/2, pers, drop)
						return res
					}
				}
			}
		case "confirm", "hold":
			if g.consDone {
				continue
			}
			g.cons.cmd <- op
			<-g.cons.ack
			armed = false // the window may have shrunk
		case "stopConsumer":
			if g.consDone {
				continue
			}
			g.cons.cmd <- op
			<-g.cons.ack
			g.consDone = true
			// the consumer handed back what it held and ended; nothing else writes to the queue directory at this
			// moment (Accept is called from this goroutine, the feeder saves only at the stop): the quota holds now
			if !overCapacity && !c.BadDir {
				var total int64
				for _, d := range listFiles() {
					total += int64(len(d))
				}
				if total > max(c.MaxBytes, diskAtStart) {
					g.cons.mu.Lock()
					nh := len(g.cons.handedBack)
					g.cons.mu.Unlock()
					res.Violation = vh.Fail("buffer:over-quota", "op %d: after the consumer ended mid-run and handed back %d chunk(s), the queue files total %d bytes, limit %d (on disk when this generation started: %d); no other writer was active", oi, nh, total, c.MaxBytes, diskAtStart)
					res.NonTrivial = true
					return res
				}
				if len(g.cons.handedBack) > 0 {
					res.Classes = append(res.Classes, "hand-back-mid-run")
				}
			}
		case "arm":
			// wait until the in-memory window provably holds >= MaxMem/2 chunks with a stalled consumer:
			// window >= pending - queued(in the persistent queue) - 1 (in the feeder's hand) - held by the consumer
			deadline := time.Now().Add(2 * time.Second)
			for time.Now().Before(deadline) {
				m := vh.Gather(g.mf)
				pending := m.Sum("c03_buffer_pending_chunks")
				queued := m.Sum("c03_buffer_queued_chunks")
				g.cons.mu.Lock()
				held := float64(len(g.cons.held))
				g.cons.mu.Unlock()
				if os.Getenv("VERIF_DEBUG") != "" {
					fmt.Printf("arm: pending=%v queued=%v held=%v\n", pending, queued, held)
				}
				if pending-queued-1-held >= float64((c.MaxMem+1)/2) {
					armed = true
					res.Classes = append(res.Classes, "armed(window-provably-half-full)")
					break
				}
				if pending-held < float64((c.MaxMem+1)/2)+1 {
					break // not enough chunks to ever arm
				}
				time.Sleep(2 * time.Millisecond)
			}
		case "restart":
			if f := destroy(); f != nil {
				res.Violation = f
				res.NonTrivial = true
				return res
			}
			if handbackSeen {
				restartAfterHandback = true
			}
			armed = false
			// damage found at the next start (op.N: 1 = a chunk file emptied, 2 = incomplete ".tmp" copies and other foreign
			// entries between the chunk files, 3 = both)
			if op.N > 0 && qdir != "" && !c.BadDir {
				var names []string
				for name := range listFiles() {
					names = append(names, name)
				}
				sort.Strings(names)
				if len(names) > 0 && op.N&1 != 0 {
					victim := names[(op.Size)%len(names)]
					if err := os.Truncate(filepath.Join(qdir, victim), 0); err == nil {
						emptied[victim] = true
						emptiedForGen[victim] = generation + 1
						damaged = true
					}
				}
				if len(names) > 1 && op.N&2 != 0 {
					// names that sort before, between and after the chunk files; the agent deletes or ignores them
					_ = os.WriteFile(filepath.Join(qdir, names[0]+util.TempFileSuffix), []byte("unfinished"), 0o644)
					_ = os.WriteFile(filepath.Join(qdir, names[len(names)/2]+util.TempFileSuffix), nil, 0o644)
					_ = os.WriteFile(filepath.Join(qdir, "0000-not-a-chunk"), []byte("x"), 0o644)
					damaged = true
				}
			}
			start()
		}
	}
	if f := destroy(); f != nil {
		res.Violation = f
		res.NonTrivial = true
		return res
	}
	res.NonTrivial = spill && (generation > 1 || handbackSeen)
	if spill {
		res.Classes = append(res.Classes, "spilled-to-disk")
	}
	if generation > 1 {
		res.Classes = append(res.Classes, "restart")
	}
	if handbackSeen {
		res.Classes = append(res.Classes, "hand-back")
	}
	if restartAfterHandback {
		res.Classes = append(res.Classes, "restart-after-hand-back")
	}
	if droppedTotal > 0 {
		res.Classes = append(res.Classes, "dropped-chunks")
	}
	if damaged {
		res.Classes = append(res.Classes, "damage-found-at-a-restart(emptied-file/.tmp-leftovers)")
	}
	if slowMachine {
		res.Classes = append(res.Classes, "watchdog-tripped-while-a-buffer-goroutine-was-in-a-system-call-or-runnable(slow machine, waited)")
	}
	if c.BadDir && c.BadKind == 1 {
		res.Classes = append(res.Classes, "directory-cannot-be-opened")
	}
	if c.BadDir {
		res.Classes = append(res.Classes, "unusable-directory")
	}
	if overCapacity {
		res.Classes = append(res.Classes, "more-files-than-scaled-queue-capacity(size-bound-skipped)")
	}
	return res
}

func ids(l []base.LogChunk) string {
	var s []string
	for _, c := range l {
		s = append(s, strings.TrimLeft(c.ID[10:19], "0"))
	}
	return strings.Join(s, ",")
}

func genCase(t *rapid.T) Case {
	var c Case
	c.MaxMem = rapid.SampledFrom([]int{2, 4, 8}).Draw(t, "maxMem")
	c.MaxQueue = rapid.SampledFrom([]int{4, 16, 64}).Draw(t, "maxQueue")
	sizeUnit := rapid.SampledFrom([]int{1, 100, 1000, 65536}).Draw(t, "unit")
	c.MaxBytes = int64(rapid.SampledFrom([]int{sizeUnit / 2, sizeUnit * 2, sizeUnit * 5, sizeUnit * 1000}).Draw(t, "maxBytes"))
	if c.MaxBytes < 1 {
		c.MaxBytes = 1
	}
	c.BadDir = rapid.IntRange(0, 7).Draw(t, "badDir") == 0
	if c.BadDir {
		c.BadKind = rapid.IntRange(0, 1).Draw(t, "badKind")
	}
	n := rapid.IntRange(1, 25).Draw(t, "nops")
	for i := 0; i < n; i++ {
		k := rapid.SampledFrom([]string{"accept", "accept", "accept", "accept", "confirm", "confirm", "hold", "arm", "restart", "stopConsumer"}).Draw(t, "op")
		op := Op{K: k}
		switch k {
		case "accept":
			op.Size = rapid.IntRange(1, max(2, sizeUnit)).Draw(t, "size")
			op.N = rapid.IntRange(1, 6).Draw(t, "repeat")
		case "confirm", "hold":
			op.N = rapid.IntRange(1, 6).Draw(t, "n")
		case "restart":
			op.N = rapid.SampledFrom([]int{0, 0, 0, 1, 2, 3}).Draw(t, "damage")
			op.Size = rapid.IntRange(0, 5).Draw(t, "victim")
		}
		if c.BadDir && k == "restart" {
			// without a directory every pending chunk must be confirmed before shutdown completes (documented sendAllAtEnd
			// behaviour); keep the consumer confirming
			c.Ops = append(c.Ops, Op{K: "confirm", N: 200})
		}
		c.Ops = append(c.Ops, op)
	}
	if c.BadDir {
		c.Ops = append(c.Ops, Op{K: "confirm", N: 200})
	}
	return c
}

// runForProperty: ./check C05 runs this engine as well (recovery order after restarts, with damage in the directory); there
// only the ordering verdicts are C05's business.
func runForProperty(c Case) vh.Result {
	res := runCase(c)
	if vh.PropertyID == "C05" && res.Violation != nil && res.Violation.Key != "buffer:order" && res.Violation.Key != "buffer:delivered-twice" {
		res.Violation = nil
	}
	return res
}

func TestC03Buffer(t *testing.T) {
	vh.Run(t, vh.Spec[Case]{
		Name: "buffer", Gen: genCase, Run: runForProperty, Quick: 150, Thorough: 2500, ShrinkSeconds: 10,
		Rule: "histories over the real hybridbuffer on one directory with BufferMaxNumChunksInMemory in {2,4,8}, BufferMaxNumChunksInQueue in {4,16,64}, maxBufSize from half a chunk to ample: accept (1 B - 64 KB, increasing IDs), consumer take+confirm, take+hold (handed back at its end), stall, stop early, arm (wait until the in-memory window provably holds >= Max/2), destroy+restart (optionally with damage found at the restart: a chunk file emptied, incomplete .tmp copies and foreign entries between the chunk files), and an unusable queue directory; oracle at every quiescent point (after Destroy): each accepted chunk is confirmed with its file gone, or a byte-identical file, or counted in dropped_chunks_total - exactly one of them (an emptied file is removed and counted once it is loaded); nothing delivered twice or altered; delivery in acceptance order with recovered chunks first; files within maxBufSize (+ chunks handed back at shutdown); Accept returns within 20 s; once armed every accepted chunk is unloaded or dropped. Non-trivial = spill to disk and (restart or hand-back)",
	})
}


// busyNotBlocked tells a slow machine from a blocked buffer: it reports whether some goroutine that is executing code of
// the agent is in a system call (file I/O) or runnable/running in the dump - such a goroutine makes progress as soon as
// the kernel or the scheduler lets it, whereas a blocked Accept/Destroy shows only goroutines waiting on channels, timers
// or locks.
func busyNotBlocked(dump string) bool {
	for _, block := range strings.Split(dump, "\n\n") {
		head, body, ok := strings.Cut(strings.TrimSpace(block), "\n")
		if !ok || !strings.HasPrefix(head, "goroutine ") || strings.Contains(body, "vh.GoroutineDump") {
			continue
		}
		if !strings.Contains(body, "github.com/relex/slog-agent/") {
			continue
		}
		if strings.Contains(head, "[syscall") || strings.Contains(head, "[runnable") || strings.Contains(head, "[running") {
			return true
		}
	}
	return false
}
