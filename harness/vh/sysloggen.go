package vh

import (
	"bytes"
	"strconv"

	"pgregory.net/rapid"
)

// Seg is a run-length encoded piece of bytes: Raw repeated Rep times. Keeps Case JSON small for MB-sized values.
type Seg struct {
	Raw []byte `json:"raw"`
	Rep int    `json:"rep"`
}

// Expand concatenates segments.
func Expand(segs []Seg) []byte {
	n := 0
	for _, s := range segs {
		n += len(s.Raw) * s.Rep
	}
	out := make([]byte, 0, n)
	for _, s := range segs {
		for i := 0; i < s.Rep; i++ {
			out = append(out, s.Raw...)
		}
	}
	return out
}

// SegLen is the expanded length.
func SegLen(segs []Seg) int {
	n := 0
	for _, s := range segs {
		n += len(s.Raw) * s.Rep
	}
	return n
}

// SyslogLine is a syslog record by components.
type SyslogLine struct {
	Pri    string `json:"pri"` // text between '<' and '>'
	Ver    string `json:"ver"` // normally "1"
	Time   []byte `json:"time"`
	Host   []byte `json:"host"`
	App    []byte `json:"app"`
	Pid    []byte `json:"pid"`
	MsgID  []byte `json:"msgid"`
	SD     []byte `json:"sd"`
	Msg    []Seg  `json:"msg"`
}

// Bytes renders the line (without trailing newline).
func (l SyslogLine) Bytes() []byte {
	var b bytes.Buffer
	b.WriteString("<" + l.Pri + ">" + l.Ver)
	for _, tok := range [][]byte{l.Time, l.Host, l.App, l.Pid, l.MsgID, l.SD} {
		b.WriteByte(' ')
		b.Write(tok)
	}
	b.WriteByte(' ')
	b.Write(Expand(l.Msg))
	return b.Bytes()
}

// HeaderLen is the length of everything before the message.
func (l SyslogLine) HeaderLen() int {
	n := 1 + len(l.Pri) + 1 + len(l.Ver)
	for _, tok := range [][]byte{l.Time, l.Host, l.App, l.Pid, l.MsgID, l.SD} {
		n += 1 + len(tok)
	}
	return n + 1
}

// GenTokenByte: any byte except space and newline.
var GenTokenByte = rapid.Custom(func(t *rapid.T) byte {
	b := rapid.Byte().Draw(t, "b")
	if b == ' ' || b == '\n' {
		return '_'
	}
	return b
})

var genASCIITokenByte = rapid.Custom(func(t *rapid.T) byte {
	return byte(rapid.IntRange(33, 126).Draw(t, "c"))
})

// GenToken generates a header token without spaces/newlines, length biased to small with occasional large ones.
func GenToken(minLen, maxLen int) *rapid.Generator[[]byte] {
	return rapid.Custom(func(t *rapid.T) []byte {
		kind := rapid.IntRange(0, 9).Draw(t, "tokKind")
		switch {
		case kind < 6:
			n := rapid.IntRange(minLen, min(maxLen, 12)).Draw(t, "n")
			return rapid.SliceOfN(genASCIITokenByte, n, n).Draw(t, "tok")
		case kind < 8:
			n := rapid.IntRange(minLen, min(maxLen, 40)).Draw(t, "n")
			return rapid.SliceOfN(GenTokenByte, n, n).Draw(t, "tok")
		case kind == 8:
			return []byte("-")
		default:
			n := rapid.IntRange(minLen, maxLen).Draw(t, "n")
			ch := genASCIITokenByte.Draw(t, "fill")
			return bytes.Repeat([]byte{ch}, n)
		}
	})
}

// GenValidPri generates a decimal PRI 0..191 without leading zeros.
var GenValidPri = rapid.Map(rapid.IntRange(0, 191), func(v int) string { return strconv.Itoa(v) })

// ValidTimes are well-formed RFC 3339 stamps used when the time token itself is not the subject.
var ValidTimes = []string{"2019-08-15T15:50:46.866915+03:00", "2020-09-17T16:51:47.867Z", "2021-01-01T00:00:00Z", "2022-02-07T10:30:45.123+0200", "1999-12-31T23:59:59.999999999-11:30"}

// GenMsgAround generates a message whose expanded length lies within ±delta of target (>=0), built from
// ASCII, multi-byte runes, optional invalid bytes, with a 0-3 byte ASCII prefix to shift rune alignment.
func GenMsgAround(target, delta int, allowInvalid, allowNewline bool) *rapid.Generator[[]Seg] {
	return rapid.Custom(func(t *rapid.T) []Seg {
		want := target + rapid.IntRange(-delta, delta).Draw(t, "dlen")
		if want < 0 {
			want = 0
		}
		var segs []Seg
		shift := rapid.IntRange(0, 3).Draw(t, "shift")
		if shift > want {
			shift = want
		}
		if shift > 0 {
			segs = append(segs, Seg{Raw: []byte("abc")[:shift], Rep: 1})
		}
		remaining := want - shift
		units := [][]byte{[]byte("x"), []byte("é"), []byte("€"), []byte("😀"), []byte("ab"), []byte("\\n"), []byte("\\t")}
		if allowInvalid {
			units = append(units, []byte{0xff}, []byte{0xc3}, []byte{0xe2, 0x82})
		}
		if allowNewline {
			units = append(units, []byte("\n"))
		}
		nparts := rapid.IntRange(1, 4).Draw(t, "nparts")
		for p := 0; p < nparts && remaining > 0; p++ {
			u := rapid.SampledFrom(units).Draw(t, "unit")
			share := remaining
			if p < nparts-1 {
				share = rapid.IntRange(0, remaining).Draw(t, "share")
			}
			rep := share / len(u)
			if rep > 0 {
				segs = append(segs, Seg{Raw: u, Rep: rep})
				remaining -= rep * len(u)
			}
		}
		if remaining > 0 {
			segs = append(segs, Seg{Raw: []byte("z"), Rep: remaining})
		}
		return segs
	})
}
