package vh

import (
	"bytes"
	"strconv"

	"pgregory.net/rapid"
)

// Seg is a run-length encoded piece of bytes: Raw repeated Rep times. Keeps Case JSON small for MB-sized values.
type Seg struct {
	Raw []byte `json:"raw"`
	Rep int    `json:"rep"`
}

// Expand concatenates segments.
func Expand(segs []Seg) []byte {
	n := 0
	for _, s := range segs {
		n += len(s.Raw) * s.Rep
	}
	out := make([]byte, 0, n)
	for _, s := range segs {
		for i := 0; i < s.Rep; i++ {
			out = append(out, s.Raw...)
		}
	}
	return out
}

// SegLen is the expanded length.
func SegLen(segs []Seg) int {
	n := 0
	for _, s := range segs {
		n += len(s.Raw) * s.Rep
	}
	return n
}

// SyslogLine is a syslog record by components.
type SyslogLine struct {
	Pri   string `json:"pri"` // text between '<' and '>'
	Ver   string `json:"ver"` // normally "1"
	Time  []byte `json:"time"`
	Host  []byte `json:"host"`
	App   []byte `json:"app"`
	Pid   []byte `json:"pid"`
	MsgID []byte `json:"msgid"`
	SD    []byte `json:"sd"`
	Msg   []Seg  `json:"msg"`
}

// Bytes renders the line (without trailing newline).
func (l SyslogLine) Bytes() []byte {
	var b bytes.Buffer
	b.WriteString("<" + l.Pri + ">" + l.Ver)
	for _, tok := range [][]byte{l.Time, l.Host, l.App, l.Pid, l.MsgID, l.SD} {
		b.WriteByte(' ')
		b.Write(tok)
	}
	b.WriteByte(' ')
	b.Write(Expand(l.Msg))
	return b.Bytes()
}

// HeaderLen is the length of everything before the message.
func (l SyslogLine) HeaderLen() int {
	n := 1 + len(l.Pri) + 1 + len(l.Ver)
	for _, tok := range [][]byte{l.Time, l.Host, l.App, l.Pid, l.MsgID, l.SD} {
		n += 1 + len(tok)
	}
	return n + 1
}

// GenTokenByte: any byte except space and newline.
var GenTokenByte = rapid.Custom(func(t *rapid.T) byte {
	b := rapid.Byte().Draw(t, "b")
	if b == ' ' || b == '\n' {
		return '_'
	}
	return b
})

var genASCIITokenByte = rapid.Custom(func(t *rapid.T) byte {
	return byte(rapid.IntRange(33, 126).Draw(t, "c"))
})

// GenToken generates a header token without spaces/newlines, length biased to small with occasional large ones.
func GenToken(minLen, maxLen int) *rapid.Generator[[]byte] {
	return rapid.Custom(func(t *rapid.T) []byte {
		kind := rapid.IntRange(0, 9).Draw(t, "tokKind")
		switch {
		case kind < 6:
			n := rapid.IntRange(minLen, min(maxLen, 12)).Draw(t, "n")
			return rapid.SliceOfN(genASCIITokenByte, n, n).Draw(t, "tok")
		case kind < 8:
			n := rapid.IntRange(minLen, min(maxLen, 40)).Draw(t, "n")
			return rapid.SliceOfN(GenTokenByte, n, n).Draw(t, "tok")
		case kind == 8:
			return []byte("-")
		default:
			n := rapid.IntRange(minLen, maxLen).Draw(t, "n")
			ch := genASCIITokenByte.Draw(t, "fill")
			return bytes.Repeat([]byte{ch}, n)
		}
	})
}

// GenValidPri generates a decimal PRI 0..191 without leading zeros.
var GenValidPri = rapid.Map(rapid.IntRange(0, 191), func(v int) string { return strconv.Itoa(v) })

// ValidTimes are well-formed RFC 3339 stamps used when the time token itself is not the subject.
var ValidTimes = []string{"2019-08-15T15:50:46.866915+03:00", "2020-09-17T16:51:47.867Z", "2021-01-01T00:00:00Z", "2022-02-07T10:30:45.123+0200", "1999-12-31T23:59:59.999999999-11:30"}

// GenMsgAround generates a message whose expanded length lies within ±delta of target (>=0), built from
// ASCII, multi-byte runes, optional invalid bytes, with a 0-3 byte ASCII prefix to shift rune alignment.
func GenMsgAround(target, delta int, allowInvalid, allowNewline bool) *rapid.Generator[[]Seg] {
	return rapid.Custom(func(t *rapid.T) []Seg {
		want := target + rapid.IntRange(-delta, delta).Draw(t, "dlen")
		if want < 0 {
			want = 0
		}
		var segs []Seg
		shift := rapid.IntRange(0, 3).Draw(t, "shift")
		if shift > want {
			shift = want
		}
		if shift > 0 {
			segs = append(segs, Seg{Raw: []byte("abc")[:shift], Rep: 1})
		}
		remaining := want - shift
		units := [][]byte{[]byte("x"), []byte("é"), []byte("€"), []byte("😀"), []byte("ab"), []byte("\\n"), []byte("\\t")}
		if allowInvalid {
			units = append(units, []byte{0xff}, []byte{0xc3}, []byte{0xe2, 0x82})
		}
		if allowNewline {
			units = append(units, []byte("\n"))
		}
		nparts := rapid.IntRange(1, 4).Draw(t, "nparts")
		for p := 0; p < nparts && remaining > 0; p++ {
			u := rapid.SampledFrom(units).Draw(t, "unit")
			share := remaining
			if p < nparts-1 {
				share = rapid.IntRange(0, remaining).Draw(t, "share")
			}
			rep := share / len(u)
			if rep > 0 {
				segs = append(segs, Seg{Raw: u, Rep: rep})
				remaining -= rep * len(u)
			}
		}
		if remaining > 0 {
			segs = append(segs, Seg{Raw: []byte("z"), Rep: remaining})
		}
		return segs
	})
}

// Pools for realistic lines (values that make the sample configuration take its branches).
var (
	PoolHosts   = []string{"basic-1", "errors", "web1.example.com", "h", "kern.host.com"}
	PoolApps    = []string{"appServ", "appServ/foo.com", "abandoned", "other", "server-app", "appServ/" + "vhost.co.uk"}
	PoolSources = []string{"access.log", "auth.log", "main.log", "cron.log:123e4567-e89b-12d3-a456-426614174000", "task.log:0123abcd-ef", "-", "x"}
	PoolPids    = []string{"1", "51629", "-", "1234567"}
	PoolSD      = []string{"-", "[meta@1 a=\"b\"]", "[x]"}
	PoolMsgs    = []string{
		"[Initializer] - Creating data engines uid=1000",
		"[ ] - blank class",
		"GET /cronlog ip=1.2.3.4 user_agent=\"Mozilla/5.0\"",
		"POST /upload params=",
		"PUT \"/x\" y params=",
		"mail from foo.bar@domain.fi,Yes to a_b@c-d.org",
		"escaped \\n newline \\t tab \\\\ backslash \\q other",
		"multi\nline\n message",
		"plain",
		"[Cls] - ",
		"ünïcödé 😀 text €",
		"",
	}
)

// GenRealisticLine generates a syslog line from the pools with occasional arbitrary tokens and padded messages
// (short, around the 1024-byte pooling threshold, and large).
func GenRealisticLine(t *rapid.T, maxMsg int) SyslogLine {
	var l SyslogLine
	l.Pri = GenValidPri.Draw(t, "pri")
	l.Ver = "1"
	pick := func(label string, pool []string, maxTok int) []byte {
		if rapid.IntRange(0, 7).Draw(t, label+"Rnd") == 0 {
			return GenToken(1, maxTok).Draw(t, label)
		}
		return []byte(rapid.SampledFrom(pool).Draw(t, label))
	}
	if rapid.IntRange(0, 5).Draw(t, "timeRnd") == 0 {
		l.Time = GenToken(1, 30).Draw(t, "time")
	} else {
		l.Time = []byte(rapid.SampledFrom(ValidTimes).Draw(t, "time"))
	}
	l.Host = pick("host", PoolHosts, 40)
	l.App = pick("app", PoolApps, 40)
	l.Pid = pick("pid", PoolPids, 10)
	l.MsgID = pick("msgid", PoolSources, 60)
	l.SD = pick("sd", PoolSD, 30)
	msg := rapid.SampledFrom(PoolMsgs).Draw(t, "msg")
	l.Msg = []Seg{{Raw: []byte(msg), Rep: 1}}
	switch rapid.IntRange(0, 9).Draw(t, "padKind") {
	case 0, 1: // around the pooling threshold
		pad := 1024 - l.HeaderLen() - len(msg) + rapid.IntRange(-3, 3).Draw(t, "padD")
		if pad > 0 {
			l.Msg = append(l.Msg, Seg{Raw: []byte(rapid.SampledFrom([]string{"p", "é", "ab "}).Draw(t, "padU")), Rep: pad})
		}
	case 2: // large
		l.Msg = append(l.Msg, Seg{Raw: []byte(rapid.SampledFrom([]string{"x", "€", "y z "}).Draw(t, "padU")), Rep: rapid.IntRange(200, max(201, maxMsg)).Draw(t, "padN")})
	case 3: // medium
		l.Msg = append(l.Msg, Seg{Raw: []byte("m"), Rep: rapid.IntRange(1, 300).Draw(t, "padN")})
	}
	return l
}
