package vh

import (
	"bytes"
	"compress/gzip"
	"fmt"
	"io"
)

// ForwardMessage is a decoded Fluentd Forward protocol message (Forward, PackedForward or CompressedPackedForward).
type ForwardMessage struct {
	Tag               string
	Mode              string   // Forward | PackedForward | CompressedPackedForward
	RawEntries        [][]byte // the bytes of each [time, record] entry
	Events            []*ForwardEvent
	OptSize           int64
	OptChunk          string
	OptCompressed     string
	HasSize, HasChunk bool
}

// DecodeForwardMessage strictly decodes one message; trailing bytes are an error.
func DecodeForwardMessage(data []byte) (*ForwardMessage, error) {
	v, n, err := MPDecode(data)
	if err != nil {
		return nil, fmt.Errorf("message: %w", err)
	}
	if n != len(data) {
		return nil, fmt.Errorf("message: %d trailing bytes", len(data)-n)
	}
	if v.Kind != MPArray || len(v.Array) != 3 {
		return nil, fmt.Errorf("message is not an array of 3")
	}
	if v.Array[0].Kind != MPStr {
		return nil, fmt.Errorf("tag is not a string")
	}
	msg := &ForwardMessage{Tag: string(v.Array[0].Bytes)}
	opt := v.Array[2]
	if opt.Kind != MPMap {
		return nil, fmt.Errorf("option is not a map")
	}
	for i, k := range opt.Keys {
		if k.Kind != MPStr {
			return nil, fmt.Errorf("option key is not a string")
		}
		val := opt.Vals[i]
		switch string(k.Bytes) {
		case "size":
			if val.Kind != MPInt {
				return nil, fmt.Errorf("option.size is not an integer")
			}
			msg.OptSize, msg.HasSize = val.Int, true
		case "chunk":
			if val.Kind != MPStr {
				return nil, fmt.Errorf("option.chunk is not a string")
			}
			msg.OptChunk, msg.HasChunk = string(val.Bytes), true
		case "compressed":
			if val.Kind != MPStr {
				return nil, fmt.Errorf("option.compressed is not a string")
			}
			msg.OptCompressed = string(val.Bytes)
		}
	}
	body := v.Array[1]
	switch body.Kind {
	case MPArray:
		msg.Mode = "Forward"
		if msg.OptCompressed != "" {
			return nil, fmt.Errorf("Forward mode message marked compressed")
		}
		for _, e := range body.Array {
			msg.RawEntries = append(msg.RawEntries, data[e.Off:e.End])
			ev, err := DecodeForwardEvent(e)
			if err != nil {
				return nil, fmt.Errorf("entry %d: %w", len(msg.Events), err)
			}
			msg.Events = append(msg.Events, ev)
		}
	case MPBin, MPStr:
		stream := body.Bytes
		msg.Mode = "PackedForward"
		if msg.OptCompressed != "" {
			if msg.OptCompressed != "gzip" {
				return nil, fmt.Errorf("unknown compression %q", msg.OptCompressed)
			}
			msg.Mode = "CompressedPackedForward"
			zr, err := gzip.NewReader(bytes.NewReader(stream))
			if err != nil {
				return nil, fmt.Errorf("gzip: %w", err)
			}
			zr.Multistream(true)
			stream, err = io.ReadAll(zr)
			if err != nil {
				return nil, fmt.Errorf("gzip: %w", err)
			}
		}
		for pos := 0; pos < len(stream); {
			e, n, err := MPDecode(stream[pos:])
			if err != nil {
				return nil, fmt.Errorf("packed entry %d at %d: %w", len(msg.Events), pos, err)
			}
			msg.RawEntries = append(msg.RawEntries, stream[pos:pos+n])
			ev, err := DecodeForwardEvent(e)
			if err != nil {
				return nil, fmt.Errorf("packed entry %d: %w", len(msg.Events), err)
			}
			msg.Events = append(msg.Events, ev)
			pos += n
		}
	default:
		return nil, fmt.Errorf("entries are neither an array nor a binary stream")
	}
	return msg, nil
}

// EncodeSimpleEvent builds a well-formed Forward entry [EventTime, {"i": idx, "m": payload}] with the harness's own encoder.
func EncodeSimpleEvent(sec, nsec uint32, idx string, payload []byte) []byte {
	out := []byte{0x92, 0xd7, 0x00, byte(sec >> 24), byte(sec >> 16), byte(sec >> 8), byte(sec), byte(nsec >> 24), byte(nsec >> 16), byte(nsec >> 8), byte(nsec), 0x82}
	out = appendStr(out, []byte("i"))
	out = appendStr(out, []byte(idx))
	out = appendStr(out, []byte("m"))
	out = appendStr(out, payload)
	return out
}

func appendStr(out []byte, s []byte) []byte {
	n := len(s)
	switch {
	case n < 32:
		out = append(out, 0xa0|byte(n))
	case n < 256:
		out = append(out, 0xd9, byte(n))
	case n < 65536:
		out = append(out, 0xda, byte(n>>8), byte(n))
	default:
		out = append(out, 0xdb, byte(n>>24), byte(n>>16), byte(n>>8), byte(n))
	}
	return append(out, s...)
}
