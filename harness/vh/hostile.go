package vh

import (
	"strings"

	"pgregory.net/rapid"
)

var hostileTokens = [][]byte{nil, []byte("-"), []byte("<"), []byte("<>"), []byte("<1"), []byte(">"), {0xff, 0xfe}, {0xc3}, []byte("\x00"), []byte("a\nb"), []byte("2019-08-15T15:50:46"), []byte("2019-08-15T"), []byte("[ ]"), []byte("@"), []byte("a@b.c"), []byte("\\"), []byte("="), []byte("appServ"), []byte("access.log"), []byte("errors"), []byte("main.log")}

// genHostileTime: strings that are shaped like a date-time (so that they get past the shape test) with something
// unusual inside: very long or odd fractions, odd zones, out-of-range components.
func genHostileTime(t *rapid.T) []byte {
	date := rapid.SampledFrom([]string{"2019-08-15", "0000-00-00", "9999-99-99", "2020-02-30", "2020-13-01", "2020-00-10", "    -  -  ", "20x9-08-15"}).Draw(t, "date")
	clock := rapid.SampledFrom([]string{"15:50:46", "24:00:00", "23:59:60", "99:99:99", "  :  :  ", "1a:50:46"}).Draw(t, "clock")
	frac := ""
	switch rapid.IntRange(0, 5).Draw(t, "fracKind") {
	case 0:
	case 1:
		frac = "." + strings.Repeat("7", rapid.IntRange(1, 9).Draw(t, "n"))
	case 2:
		frac = "." + strings.Repeat(rapid.SampledFrom([]string{"0", "9", "1"}).Draw(t, "d"), rapid.IntRange(10, 40).Draw(t, "n")) // more digits than nanoseconds
	case 3:
		frac = "."
	case 4:
		frac = "." + rapid.SampledFrom([]string{"12a", "-1", " 1", "1.2", "١٢"}).Draw(t, "odd")
	default:
		frac = "." + strings.Repeat("3", rapid.IntRange(200, 400).Draw(t, "n"))
	}
	zone := rapid.SampledFrom([]string{"Z", "z", "", "+03:00", "-0930", "+25:99", "+0", "+1", "+03:0", "+03:000", "+030", "Z0", "ZZ", "+", "-", "+aa:bb", "+03:00Z", "+99:99", "-00:00", "+14:00", "−03:00"}).Draw(t, "zone")
	sep := rapid.SampledFrom([]string{"T", "T", "T", "t", " ", "_"}).Draw(t, "sep")
	return []byte(date + sep + clock + frac + zone)
}

// GenHostile generates one hostile input (without trailing newline), see C07.
func GenHostile(t *rapid.T, maxMsg int) []Seg {
	maxRec := maxMsg + 256
	lens := []int{0, 1, 31, 32, 33, 1023, 1024, 1025, 65535, 65536, maxMsg - 1, maxMsg, maxMsg + 1, maxRec - 1, maxRec, maxRec + 1, 2*maxRec - 64, 2 * maxRec, 2*maxRec + 64, 4 * maxRec}
	switch rapid.IntRange(0, 9).Draw(t, "kind") {
	case 0: // raw bytes
		return []Seg{{Raw: rapid.SliceOfN(rapid.Byte(), 0, 80).Draw(t, "raw"), Rep: 1}}
	case 1: // raw bytes that reach the parser
		return []Seg{{Raw: []byte("<"), Rep: 1}, {Raw: rapid.SliceOfN(rapid.Byte(), 31, 120).Draw(t, "raw"), Rep: 1}}
	case 2, 3, 4: // valid-looking header with hostile tokens
		l := GenRealisticLine(t, 300)
		for _, tok := range []*[]byte{&l.Time, &l.Host, &l.App, &l.Pid, &l.MsgID, &l.SD} {
			if rapid.IntRange(0, 3).Draw(t, "mut") == 0 {
				*tok = rapid.SampledFrom(hostileTokens).Draw(t, "tok")
			}
		}
		if rapid.IntRange(0, 2).Draw(t, "timeMut") == 0 {
			l.Time = genHostileTime(t)
		}
		switch rapid.IntRange(0, 5).Draw(t, "priKind") {
		case 0:
			l.Pri = rapid.SampledFrom([]string{"", "999999", "-1", "+1", "1a", "192", " "}).Draw(t, "pri")
		case 1:
			l.Ver = rapid.SampledFrom([]string{"", "2", "11"}).Draw(t, "ver")
		}
		b := l.Bytes()
		if rapid.IntRange(0, 4).Draw(t, "cut") == 0 {
			b = b[:rapid.IntRange(0, len(b)).Draw(t, "cutAt")]
		}
		return []Seg{{Raw: b, Rep: 1}}
	case 5, 6: // one oversized token at a boundary length
		target := rapid.SampledFrom(lens).Draw(t, "len") + rapid.IntRange(-2, 2).Draw(t, "d")
		which := rapid.IntRange(0, 6).Draw(t, "which")
		fill := rapid.SampledFrom([][]byte{[]byte("x"), []byte("é"), {0xff}, []byte("a "), []byte("<1>1 ")}).Draw(t, "fill")
		parts := [][]byte{[]byte("<13>1"), []byte("2020-01-01T00:00:00Z"), []byte("host"), []byte("appServ"), []byte("1"), []byte("access.log"), []byte("-"), []byte("msg")}
		var segs []Seg
		for i, p := range parts {
			if i > 0 {
				segs = append(segs, Seg{Raw: []byte(" "), Rep: 1})
			}
			if i == which+1 {
				segs = append(segs, Seg{Raw: fill, Rep: max(0, target) / len(fill)})
			} else {
				segs = append(segs, Seg{Raw: p, Rep: 1})
			}
		}
		return segs
	case 7: // total length at a boundary, valid record with padded message of multi-byte runes
		target := rapid.SampledFrom(lens).Draw(t, "len") + rapid.IntRange(-3, 3).Draw(t, "d")
		head := []byte("<13>1 2020-01-01T00:00:00Z errors appServ 1 main.log - POST ab params=")
		unit := rapid.SampledFrom([]string{"é", "€", "😀", "x", "\\n", "a@b.co "}).Draw(t, "unit")
		return []Seg{{Raw: head, Rep: 1}, {Raw: []byte(unit), Rep: max(0, target-len(head)) / len(unit)}}
	case 8: // header only / missing fields
		n := rapid.IntRange(0, 7).Draw(t, "nfields")
		s := "<13>1" + strings.Repeat(" f", n)
		for len(s) < 32 {
			s += "_"
		}
		return []Seg{{Raw: []byte(s), Rep: 1}}
	default: // continuation-style garbage
		return []Seg{{Raw: []byte(rapid.SampledFrom([]string{"\tat com.foo.Bar(Baz.java:1)", "", " ", "Caused by: x", "<13>1 short"}).Draw(t, "garbage")), Rep: 1}}
	}
}
