package vh

import (
	"fmt"
	"os"
	"path/filepath"
	"strings"
	"sync/atomic"

	"github.com/relex/slog-agent/base"
	"github.com/relex/slog-agent/run"
)

var confSeq int64

// LoadConfigText writes the text to a scratch file and loads it through run.ParseConfigFile.
func LoadConfigText(text string) (run.Config, base.LogSchema, error) {
	dir := os.Getenv("VERIF_SCRATCH")
	if dir == "" {
		dir = os.TempDir()
	}
	path := filepath.Join(dir, fmt.Sprintf("conf-%d-%d.yml", os.Getpid(), atomic.AddInt64(&confSeq, 1)%16))
	if err := os.WriteFile(path, []byte(text), 0o644); err != nil {
		return run.Config{}, base.LogSchema{}, err
	}
	conf, schema, _, err := run.ParseConfigFile(path)
	return conf, schema, err
}

// WriteConfigFile writes a config text to a fresh scratch file and returns its path.
func WriteConfigFile(text string) string {
	dir := os.Getenv("VERIF_SCRATCH")
	if dir == "" {
		dir = os.TempDir()
	}
	path := filepath.Join(dir, fmt.Sprintf("agentconf-%d-%d.yml", os.Getpid(), atomic.AddInt64(&confSeq, 1)))
	if err := os.WriteFile(path, []byte(text), 0o644); err != nil {
		panic(err)
	}
	return path
}

// SampleConfigText returns testdata/config_sample.yml with buffer paths moved under bufRoot, the listener on port 0 and,
// if deterministic, the sampled drop (the documented stateful exception) turned into a 100 % drop.
func SampleConfigText(bufRoot string, deterministic bool) string {
	b, err := os.ReadFile(filepath.Join(RepoDir(), "testdata", "config_sample.yml"))
	if err != nil {
		panic(err)
	}
	text := string(b)
	text = strings.ReplaceAll(text, "/tmp/slog-buffer-fluentd", filepath.Join(bufRoot, "fluentd"))
	text = strings.ReplaceAll(text, "/tmp/slog-buffer-datadog", filepath.Join(bufRoot, "datadog"))
	text = strings.ReplaceAll(text, "localhost:5140", "localhost:0")
	if deterministic {
		if !strings.Contains(text, "percentage: 33") {
			panic("sample config changed: no 'percentage: 33'")
		}
		text = strings.ReplaceAll(text, "percentage: 33", "percentage: 100")
	}
	return text
}
