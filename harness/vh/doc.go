// Package vh is the shared library of the verification harness.
package vh

import (
	_ "github.com/relex/slog-agent/base"
	_ "pgregory.net/rapid"
)
