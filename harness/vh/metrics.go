package vh

import (
	"sort"
	"strings"

	"github.com/prometheus/client_golang/prometheus"
	dto "github.com/prometheus/client_model/go"
)

// Metrics is a flat snapshot: `name{l1="v1",l2="v2"}` -> value (labels sorted by name).
type Metrics map[string]float64

// Gather takes a snapshot of all metrics of a gatherer.
func Gather(g prometheus.Gatherer) Metrics {
	out := Metrics{}
	mfs, err := g.Gather()
	if err != nil && len(mfs) == 0 {
		return out
	}
	for _, mf := range mfs {
		for _, m := range mf.GetMetric() {
			out[MetricKey(mf.GetName(), m.GetLabel())] = metricValue(m)
		}
	}
	return out
}

func metricValue(m *dto.Metric) float64 {
	switch {
	case m.Counter != nil:
		return m.Counter.GetValue()
	case m.Gauge != nil:
		return m.Gauge.GetValue()
	case m.Untyped != nil:
		return m.Untyped.GetValue()
	}
	return 0
}

// GatherErr is Gather plus the error of the gatherer, if any: what the agent's /metrics endpoint (promhttp handler with
// the default HTTPErrorOnError) would answer with status 500 instead of any metrics.
func GatherErr(g prometheus.Gatherer) (Metrics, string) {
	_, err := g.Gather()
	if err != nil {
		return Gather(g), err.Error()
	}
	return Gather(g), ""
}

// MetricKey formats a metric name with labels.
func MetricKey(name string, labels []*dto.LabelPair) string {
	parts := make([]string, 0, len(labels))
	for _, l := range labels {
		parts = append(parts, l.GetName()+"="+strconvQuote(l.GetValue()))
	}
	sort.Strings(parts)
	return name + "{" + strings.Join(parts, ",") + "}"
}

func strconvQuote(s string) string {
	return `"` + strings.ReplaceAll(strings.ReplaceAll(s, `\`, `\\`), `"`, `\"`) + `"`
}

// Sum adds up all series of a metric family whose labels include all given label pairs ("k=v").
func (m Metrics) Sum(name string, labelPairs ...string) float64 {
	total := 0.0
	for k, v := range m {
		if !strings.HasPrefix(k, name+"{") {
			continue
		}
		ok := true
		for _, lp := range labelPairs {
			i := strings.IndexByte(lp, '=')
			want := lp[:i] + "=" + strconvQuote(lp[i+1:])
			body := k[len(name)+1 : len(k)-1]
			found := false
			for _, part := range splitLabels(body) {
				if part == want {
					found = true
					break
				}
			}
			if !found {
				ok = false
				break
			}
		}
		if ok {
			total += v
		}
	}
	return total
}

// Has reports whether a series of the family with all given label pairs exists (whatever its value).
func (m Metrics) Has(name string, labelPairs ...string) bool {
	for k := range m {
		if !strings.HasPrefix(k, name+"{") {
			continue
		}
		parts := splitLabels(k[len(name)+1 : len(k)-1])
		ok := true
		for _, lp := range labelPairs {
			i := strings.IndexByte(lp, '=')
			want := lp[:i] + "=" + strconvQuote(lp[i+1:])
			found := false
			for _, part := range parts {
				if part == want {
					found = true
					break
				}
			}
			if !found {
				ok = false
				break
			}
		}
		if ok {
			return true
		}
	}
	return false
}

// splitLabels splits `a="x",b="y,z"` at top-level commas.
func splitLabels(s string) []string {
	var parts []string
	inq := false
	start := 0
	for i := 0; i < len(s); i++ {
		switch s[i] {
		case '\\':
			i++
		case '"':
			inq = !inq
		case ',':
			if !inq {
				parts = append(parts, s[start:i])
				start = i + 1
			}
		}
	}
	if start < len(s) {
		parts = append(parts, s[start:])
	}
	return parts
}
