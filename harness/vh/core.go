// Package vh is the shared library of the verification harness: case
// execution with panic capture, statistics for the evidence files, the
// known-findings list, replay files and the glue to rapid.
//
// Every engine is written as: a plain-data Case type, a generator
// gen(*rapid.T) Case whose randomness comes only from rapid draws, and a pure
// run(Case) Result that builds the code under test from /repo, executes it
// and applies the oracle.
package vh

import (
	"bytes"
	"encoding/json"
	"flag"
	"fmt"
	"hash/fnv"
	"os"
	"path/filepath"
	"regexp"
	"runtime"
	"runtime/debug"
	"sort"
	"strconv"
	"strings"
	"sync"
	"testing"
	"time"

	"pgregory.net/rapid"
)

// Finding is a violation of a property seen on one case.
type Finding struct {
	Key string `json:"key"` // stable class of the failure (see DESIGN §1.7)
	Msg string `json:"msg"` // human readable detail
}

// Result is the verdict of run(Case).
type Result struct {
	Violation  *Finding
	NonTrivial bool
	Classes    []string
	Known      []string // keys of listed known findings that this case ran into without stopping the oracle (see KnownOr)
}

// KnownOr is used by oracles that can continue past a known finding: if key is a listed known finding it is noted in
// the result and nil is returned (the oracle goes on); otherwise a Finding is returned, to be reported as a violation.
func (r *Result) KnownOr(key, format string, args ...any) *Finding {
	if IsKnown(key) {
		r.Known = append(r.Known, key)
		return nil
	}
	return Fail(key, format, args...)
}

// Fail is a helper to build a violating Result.
func Fail(key, format string, args ...any) *Finding {
	return &Finding{Key: key, Msg: fmt.Sprintf(format, args...)}
}

// Spec describes one sub-check of a property.
type Spec[C any] struct {
	Name           string             // unique within the property, recorded in replay files
	Gen            func(*rapid.T) C   // generator (nil for enumeration-only checks)
	Run            func(C) Result     // executes one case
	Quick          int                // rapid checks in the quick tier
	Thorough       int                // rapid checks per shard in the thorough tier
	Journal        bool               // write the case to the journal before running it (engines with background goroutines)
	Enum           func(func(C) bool) // optional exhaustive enumeration, run before the random part; yield returns false to stop
	EnumOnlyShard0 bool               // enumeration is only done by shard 0 in sharded runs
	EnumSharded    bool               // the enumeration is divided among the shards (case i goes to shard i mod n); together they are exhaustive
	Rule           string             // non-triviality rule in words
	NoRecover      bool               // do not recover panics in Run (engine handles them itself)
	ShrinkSeconds  int                // time limit for rapid's shrinking (default 20 s; lower for engines with slow cases)
}

// ---------------------------------------------------------------------------
// environment

var (
	PropertyID = os.Getenv("VERIF_PROPERTY")
	Tier       = envOr("VERIF_TIER", "quick")
	Seed       = envInt("VERIF_SEED", 1)
	Shard      = envInt("VERIF_SHARD", 0)
	NShards    = envInt("VERIF_NSHARDS", 1)
	OutFile    = os.Getenv("VERIF_OUT")    // stats JSON written at the end of each sub-check
	ReplayFile = os.Getenv("VERIF_REPLAY") // replay exactly this file and nothing else
	VerifRoot  = envOr("VERIF_ROOT", "/verif")
	ScaleEnv   = envInt("VERIF_SCALE", 100) // percentage applied to case counts (used by the self-test to run faster)
)

func envOr(k, d string) string {
	if v := os.Getenv(k); v != "" {
		return v
	}
	return d
}

func envInt(k string, d int) int {
	if v := os.Getenv(k); v != "" {
		if n, err := strconv.Atoi(v); err == nil {
			return n
		}
	}
	return d
}

// RapidSeed derives the rapid seed of this process (never 0).
func RapidSeed(sub string) uint64 {
	h := fnv.New64a()
	h.Write([]byte(sub))
	s := (uint64(Seed)*1000003 + uint64(Shard)*7919 + h.Sum64()%1000) % (1 << 62)
	return s + 1
}

// ---------------------------------------------------------------------------
// known findings

type KnownFinding struct {
	Property string `json:"property"`
	Status   string `json:"status"` // known | fixed
	Key      string `json:"key"`
	What     string `json:"what"`
	Example  string `json:"example,omitempty"`
	Commit   string `json:"commit,omitempty"`
}

var (
	knownOnce sync.Once
	knownMap  map[string]KnownFinding // key -> entry, only status=known of this property
)

func loadKnown() {
	knownMap = map[string]KnownFinding{}
	data, err := os.ReadFile(filepath.Join(VerifRoot, "known_findings.jsonl"))
	if err != nil {
		return
	}
	for _, line := range bytes.Split(data, []byte("\n")) {
		line = bytes.TrimSpace(line)
		if len(line) == 0 || line[0] == '#' {
			continue
		}
		var k KnownFinding
		if json.Unmarshal(line, &k) != nil {
			continue
		}
		if k.Status == "known" && (PropertyID == "" || k.Property == PropertyID) {
			knownMap[k.Key] = k
		}
	}
}

// IsKnown reports whether a finding key is listed as a known finding of the current property.
func IsKnown(key string) bool {
	knownOnce.Do(loadKnown)
	_, ok := knownMap[key]
	return ok
}

// KnownKeys returns the listed known keys of the current property.
func KnownKeys() []string {
	knownOnce.Do(loadKnown)
	var ks []string
	for k := range knownMap {
		ks = append(ks, k)
	}
	sort.Strings(ks)
	return ks
}

// ---------------------------------------------------------------------------
// statistics

type ViolationRec struct {
	Check  string `json:"check"`
	Key    string `json:"key"`
	Msg    string `json:"msg"`
	Replay string `json:"replay"`
}

type Stats struct {
	Check           string            `json:"check"`
	Evaluations     int64             `json:"evaluations"`
	NonTrivialEvals int64             `json:"nontrivial_evaluations"`
	Distinct        int               `json:"distinct_nontrivial"`
	HashFile        string            `json:"hash_file,omitempty"`
	Classes         map[string]int64  `json:"classes"`
	Samples         []json.RawMessage `json:"samples"`
	TrivialSample   json.RawMessage   `json:"trivial_sample,omitempty"`
	KnownHits       map[string]int64  `json:"known_hits"`
	Violations      []ViolationRec    `json:"violations"`
	Exhaustive      bool              `json:"exhaustive"`
	EnumSize        int64             `json:"enum_size"`
	RapidPassed     int               `json:"rapid_passed"`
	RapidRequested  int               `json:"rapid_requested"`
	Rule            string            `json:"rule"`
	WallS           float64           `json:"wall_s"`
	Notes           []string          `json:"notes,omitempty"`
	hashes          map[uint64]struct{}
	mu              sync.Mutex
}

const maxHashes = 2_000_000

func newStats(name, rule string) *Stats {
	return &Stats{Check: name, Rule: rule, Classes: map[string]int64{}, KnownHits: map[string]int64{}, hashes: map[uint64]struct{}{}}
}

func (s *Stats) record(caseJSON []byte, r Result) {
	s.mu.Lock()
	defer s.mu.Unlock()
	s.Evaluations++
	for _, c := range r.Classes {
		s.Classes[c]++
	}
	if r.NonTrivial {
		s.NonTrivialEvals++
		h := fnv.New64a()
		h.Write(caseJSON)
		hv := h.Sum64()
		if _, ok := s.hashes[hv]; !ok && len(s.hashes) < maxHashes {
			s.hashes[hv] = struct{}{}
			if len(s.Samples) < 4 && len(caseJSON) < 6000 {
				s.Samples = append(s.Samples, append([]byte(nil), caseJSON...))
			}
		}
	} else if s.TrivialSample == nil && len(caseJSON) < 6000 {
		s.TrivialSample = append([]byte(nil), caseJSON...)
	}
}

var (
	allStatsMu sync.Mutex
	allStats   []*Stats
)

func registerStats(s *Stats) {
	allStatsMu.Lock()
	defer allStatsMu.Unlock()
	allStats = append(allStats, s)
	flushAllLocked()
}

// FlushStats (re)writes the stats file of this process.
func FlushStats() {
	allStatsMu.Lock()
	defer allStatsMu.Unlock()
	flushAllLocked()
}

func flushAllLocked() {
	if OutFile == "" {
		return
	}
	for _, s := range allStats {
		s.mu.Lock()
		s.Distinct = len(s.hashes)
		if len(s.hashes) > 0 {
			// dump the hashes so that the driver can merge shards exactly
			s.HashFile = OutFile + "." + sanitize(s.Check) + ".hashes"
			buf := make([]byte, 0, len(s.hashes)*8)
			for h := range s.hashes {
				buf = append(buf, byte(h), byte(h>>8), byte(h>>16), byte(h>>24), byte(h>>32), byte(h>>40), byte(h>>48), byte(h>>56))
			}
			_ = os.WriteFile(s.HashFile, buf, 0o644)
		}
		s.mu.Unlock()
	}
	data, _ := json.Marshal(allStats)
	_ = os.WriteFile(OutFile+".tmp", data, 0o644)
	_ = os.Rename(OutFile+".tmp", OutFile)
}

func sanitize(s string) string {
	return regexp.MustCompile(`[^A-Za-z0-9_.-]`).ReplaceAllString(s, "_")
}

// ---------------------------------------------------------------------------
// replay files

type ReplayDoc struct {
	Property string          `json:"property"`
	Check    string          `json:"check"`
	Key      string          `json:"key,omitempty"`
	Msg      string          `json:"msg,omitempty"`
	Case     json.RawMessage `json:"case"`
}

func replayDir() string {
	d := filepath.Join(VerifRoot, "replays", PropertyID)
	if o := os.Getenv("VERIF_REPLAY_OUT"); o != "" {
		d = filepath.Join(o, PropertyID)
	}
	_ = os.MkdirAll(d, 0o755)
	return d
}

func saveReplay(check string, f *Finding, caseJSON []byte) string {
	h := fnv.New64a()
	h.Write(caseJSON)
	name := fmt.Sprintf("fail-%s-%016x.json", sanitize(check), h.Sum64())
	path := filepath.Join(replayDir(), name)
	doc := ReplayDoc{Property: PropertyID, Check: check, Key: f.Key, Msg: f.Msg, Case: caseJSON}
	data, _ := json.MarshalIndent(doc, "", " ")
	_ = os.WriteFile(path, data, 0o644)
	return path
}

func loadReplay(path string) (*ReplayDoc, error) {
	data, err := os.ReadFile(path)
	if err != nil {
		return nil, err
	}
	var doc ReplayDoc
	if err := json.Unmarshal(data, &doc); err != nil {
		return nil, err
	}
	return &doc, nil
}

// ---------------------------------------------------------------------------
// panic capture

var (
	reDigits = regexp.MustCompile(`[0-9]+`)
	reQuoted = regexp.MustCompile(`"[^"]*"|'[^']*'`)
	reHex    = regexp.MustCompile(`0x[0-9a-fA-F]+`)
	reTime   = regexp.MustCompile(`time="[^"]*"`)
)

// NormalizeMsg masks volatile parts (numbers, quoted names, addresses) of a panic text.
func NormalizeMsg(msg string) string {
	msg = reTime.ReplaceAllString(msg, "")
	if i := strings.Index(msg, "msg="); i >= 0 { // logrus entry: keep only the message
		msg = msg[i+4:]
	}
	msg = reQuoted.ReplaceAllString(msg, "Q")
	msg = reHex.ReplaceAllString(msg, "X")
	msg = reDigits.ReplaceAllString(msg, "N")
	msg = strings.Join(strings.Fields(msg), " ")
	if len(msg) > 120 {
		msg = msg[:120]
	}
	return msg
}

var reFrame = regexp.MustCompile(`(?m)^(github\.com/relex/slog-agent/[^\s(]+(?:\([^)]*\))?[^\s(]*)\(`)

// InnermostRepoFrame extracts the innermost stack frame that lies inside the agent's module.
func InnermostRepoFrame(stack string) string {
	for _, line := range strings.Split(stack, "\n") {
		if strings.HasPrefix(line, "github.com/relex/slog-agent/") {
			fn := line
			if i := strings.LastIndex(fn, "("); i > 0 {
				fn = fn[:i]
			}
			fn = strings.TrimPrefix(fn, "github.com/relex/slog-agent/")
			// skip logging helpers
			if strings.Contains(fn, "logger.") {
				continue
			}
			return fn
		}
	}
	return "?"
}

// PanicFinding converts a recovered panic into a Finding with a stable key.
func PanicFinding(r any, stack []byte) *Finding {
	msg := fmt.Sprint(r)
	if e, ok := r.(interface{ String() (string, error) }); ok { // logrus.Entry
		if s, err := e.String(); err == nil {
			msg = s
		}
	}
	key := "panic:" + InnermostRepoFrame(string(stack)) + ":" + NormalizeMsg(msg)
	st := string(stack)
	if len(st) > 3000 {
		st = st[:3000]
	}
	return &Finding{Key: key, Msg: "panic: " + msg + "\n" + st}
}

// Protect runs fn and converts a panic (including memory faults) into a Finding.
func Protect(fn func()) (f *Finding) {
	old := debug.SetPanicOnFault(true)
	defer debug.SetPanicOnFault(old)
	defer func() {
		if r := recover(); r != nil {
			f = PanicFinding(r, debug.Stack())
		}
	}()
	fn()
	return nil
}

// ---------------------------------------------------------------------------
// running

type stopSentinel struct{}

// recTB adapts testing.T for rapid so that a failure does not abort the other sub-checks.
type recTB struct {
	t      *testing.T
	failed bool
	logs   []string
	mu     sync.Mutex
}

func (r *recTB) Helper()      {}
func (r *recTB) Name() string { return r.t.Name() }
func (r *recTB) Logf(format string, args ...any) {
	r.mu.Lock()
	defer r.mu.Unlock()
	if len(r.logs) < 200 {
		r.logs = append(r.logs, fmt.Sprintf(format, args...))
	}
}
func (r *recTB) Log(args ...any)                   { r.Logf("%s", fmt.Sprint(args...)) }
func (r *recTB) Skipf(format string, args ...any)  { r.Logf(format, args...); panic(stopSentinel{}) }
func (r *recTB) Skip(args ...any)                  { r.Log(args...); panic(stopSentinel{}) }
func (r *recTB) SkipNow()                          { panic(stopSentinel{}) }
func (r *recTB) Errorf(format string, args ...any) { r.Logf(format, args...); r.Fail() }
func (r *recTB) Error(args ...any)                 { r.Log(args...); r.Fail() }
func (r *recTB) Fatalf(format string, args ...any) { r.Errorf(format, args...); r.FailNow() }
func (r *recTB) Fatal(args ...any)                 { r.Error(args...); r.FailNow() }
func (r *recTB) FailNow()                          { r.Fail(); panic(stopSentinel{}) }
func (r *recTB) Fail()                             { r.mu.Lock(); r.failed = true; r.mu.Unlock() }
func (r *recTB) Failed() bool                      { r.mu.Lock(); defer r.mu.Unlock(); return r.failed }

var rePassed = regexp.MustCompile(`OK, passed (\d+) tests`)

// Count scales a per-tier case count.
func Count(quick, thorough int) int {
	n := quick
	if Tier == "thorough" {
		n = thorough
	}
	n = n * ScaleEnv / 100
	if n < 1 {
		n = 1
	}
	return n
}

// Run executes one sub-check: replay files, optional enumeration, then rapid.
func Run[C any](t *testing.T, s Spec[C]) {
	t.Helper()
	st := newStats(s.Name, s.Rule)
	registerStats(st)
	start := time.Now()
	defer func() {
		st.WallS = time.Since(start).Seconds()
		FlushStats()
	}()

	journalPath := ""
	if s.Journal && OutFile != "" {
		journalPath = OutFile + ".journal"
	}

	// exec runs one case and records it; returns a finding that is NOT a known one, or nil.
	exec := func(c C) *Finding {
		cj, err := json.Marshal(c)
		if err != nil {
			panic(fmt.Sprintf("case not serialisable: %v", err))
		}
		if journalPath != "" {
			doc := ReplayDoc{Property: PropertyID, Check: s.Name, Case: cj}
			data, _ := json.Marshal(doc)
			_ = os.WriteFile(journalPath, data, 0o644)
		}
		var res Result
		if s.NoRecover {
			res = s.Run(c)
		} else {
			if pf := Protect(func() { res = s.Run(c) }); pf != nil {
				if strings.HasPrefix(pf.Key, "panic:?:") {
					// no frame of the code under test anywhere on the stack: the harness itself failed (scratch file not
					// writable, disk full, a bug of the harness). That is not a verdict about the property.
					t.Errorf("HARNESS-ERROR check=%s the harness panicked outside the code under test:\n%s\ncase: %s", s.Name, pf.Msg, cj)
					st.mu.Lock()
					st.Notes = append(st.Notes, "harness error: "+firstLine(pf.Msg))
					st.mu.Unlock()
					res = Result{}
				} else {
					res = Result{Violation: pf, NonTrivial: true, Classes: []string{"panic-in-the-code-under-test"}}
				}
			}
		}
		if journalPath != "" {
			_ = os.Remove(journalPath)
		}
		st.record(cj, res)
		if len(res.Known) > 0 {
			st.mu.Lock()
			for _, k := range res.Known {
				st.KnownHits[k]++
			}
			st.mu.Unlock()
		}
		if res.Violation != nil {
			if IsKnown(res.Violation.Key) {
				st.mu.Lock()
				st.KnownHits[res.Violation.Key]++
				st.mu.Unlock()
				return nil
			}
			return res.Violation
		}
		return nil
	}

	report := func(c C, f *Finding) {
		cj, _ := json.Marshal(c)
		path := saveReplay(s.Name, f, cj)
		st.mu.Lock()
		st.Violations = append(st.Violations, ViolationRec{Check: s.Name, Key: f.Key, Msg: f.Msg, Replay: path})
		st.mu.Unlock()
		t.Errorf("VIOLATION-DETAIL check=%s key=%s replay=%s\n%s", s.Name, f.Key, path, f.Msg)
	}

	// 1. explicit replay
	if ReplayFile != "" {
		doc, err := loadReplay(ReplayFile)
		if err != nil {
			t.Fatalf("cannot load replay %s: %v", ReplayFile, err)
		}
		if doc.Check != s.Name {
			return
		}
		var c C
		if err := json.Unmarshal(doc.Case, &c); err != nil {
			t.Fatalf("cannot decode case in %s: %v", ReplayFile, err)
		}
		for rep := 0; rep < max(1, envInt("VERIF_REPLAY_REPEAT", 1)); rep++ {
			if f := exec(c); f != nil {
				report(c, f)
				break
			}
		}
		return
	}

	// 2. committed regression cases (shrunk failures, known-finding examples): always re-run first
	files, _ := filepath.Glob(filepath.Join(VerifRoot, "replays", PropertyID, "*.json"))
	sort.Strings(files)
	for fi, fpath := range files {
		if NShards > 1 && fi%NShards != Shard {
			continue // the regression files are divided among the shards
		}
		doc, err := loadReplay(fpath)
		if err != nil || doc.Check != s.Name {
			continue
		}
		var c C
		if err := json.Unmarshal(doc.Case, &c); err != nil {
			continue
		}
		st.Classes["replayed-regression-file"]++
		if f := exec(c); f != nil {
			report(c, f)
			return
		}
	}

	// 3. exhaustive sub-space
	if s.Enum != nil && (!s.EnumOnlyShard0 || Shard == 0) {
		var bad *Finding
		var badCase C
		n, done := int64(0), int64(0)
		s.Enum(func(c C) bool {
			n++
			if s.EnumSharded && NShards > 1 && int((n-1)%int64(NShards)) != Shard {
				return true
			}
			done++
			if f := exec(c); f != nil {
				bad, badCase = f, c
				return false
			}
			return true
		})
		st.EnumSize = done
		if bad != nil {
			report(badCase, bad)
			return
		}
		st.Exhaustive = true
	}

	// 4. random / rapid part
	if s.Gen == nil {
		return
	}
	n := Count(s.Quick, s.Thorough)
	st.RapidRequested = n
	_ = flag.Set("rapid.checks", strconv.Itoa(n))
	_ = flag.Set("rapid.seed", strconv.FormatUint(RapidSeed(s.Name), 10))
	_ = flag.Set("rapid.nofailfile", "true")
	shrink := 20
	if s.ShrinkSeconds > 0 {
		shrink = s.ShrinkSeconds
	}
	_ = flag.Set("rapid.shrinktime", fmt.Sprintf("%ds", shrink))
	var lastFail *Finding
	var lastCase C
	haveFail := false
	rtb := &recTB{t: t}
	func() {
		defer func() {
			if r := recover(); r != nil {
				if _, ok := r.(stopSentinel); !ok {
					panic(r)
				}
			}
		}()
		rapid.Check(rtb, func(rt *rapid.T) {
			c := s.Gen(rt)
			if f := exec(c); f != nil {
				lastFail, lastCase, haveFail = f, c, true
				rt.Fatalf("violation %s: %s", f.Key, firstLine(f.Msg))
			}
		})
	}()
	for _, l := range rtb.logs {
		if m := rePassed.FindStringSubmatch(l); m != nil {
			st.RapidPassed, _ = strconv.Atoi(m[1])
		}
	}
	if haveFail {
		report(lastCase, lastFail)
		return
	}
	if rtb.Failed() {
		// rapid failed without a violation of ours: generator problem -> surface it, as an error not a violation
		t.Errorf("HARNESS-ERROR check=%s rapid failed without an oracle violation:\n%s", s.Name, strings.Join(rtb.logs, "\n"))
		st.mu.Lock()
		st.Notes = append(st.Notes, "rapid failure without oracle violation")
		st.mu.Unlock()
	}
}

func firstLine(s string) string {
	if i := strings.IndexByte(s, '\n'); i >= 0 {
		return s[:i]
	}
	return s
}

// GoroutineDump returns all goroutine stacks (for hang diagnostics).
func GoroutineDump() string {
	buf := make([]byte, 1<<20)
	n := runtime.Stack(buf, true)
	return string(buf[:n])
}
