package vh

import (
	"bytes"
	"sync"

	"github.com/relex/gotils/logger"
)

// LogCapture collects the agent's log output (error level and above by default).
type LogCapture struct {
	mu  sync.Mutex
	buf bytes.Buffer
}

func (c *LogCapture) Write(p []byte) (int, error) {
	c.mu.Lock()
	defer c.mu.Unlock()
	if c.buf.Len() < 1<<20 {
		c.buf.Write(p)
	}
	return len(p), nil
}

// Take returns and clears the captured text.
func (c *LogCapture) Take() string {
	c.mu.Lock()
	defer c.mu.Unlock()
	s := c.buf.String()
	c.buf.Reset()
	return s
}

// Logs is the process-wide capture.
var Logs = &LogCapture{}

// QuietLogs lowers the agent's log level to the given level and redirects output to the capture buffer.
func QuietLogs(level logger.LogLevel) {
	logger.SetLogLevel(level)
	logger.SetOutput(Logs)
}
