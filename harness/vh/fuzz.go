package vh

import (
	"encoding/json"
	"testing"

	"pgregory.net/rapid"
)

// FuzzSpec turns an engine (generator + oracle) into a native fuzz target: the fuzzer's bytes drive the rapid generator
// (rapid.MakeFuzz), so coverage guidance explores the structured case space and the semantic oracle runs on every input.
// A failing input is kept by `go test` under testdata/fuzz/<Target>/ and re-runs with every later `go test`; the case is
// printed as JSON so that it can be kept as a replay file as well.
func FuzzSpec[C any](f *testing.F, gen func(*rapid.T) C, run func(C) Result) {
	f.Fuzz(rapid.MakeFuzz(func(t *rapid.T) {
		c := gen(t)
		var r Result
		if pf := Protect(func() { r = run(c) }); pf != nil {
			b, _ := json.Marshal(c)
			t.Fatalf("VIOLATION key=%s\n%s\ncase: %s", pf.Key, pf.Msg, b)
		}
		if r.Violation != nil && !IsKnown(r.Violation.Key) {
			b, _ := json.Marshal(c)
			t.Fatalf("VIOLATION key=%s\n%s\ncase: %s", r.Violation.Key, r.Violation.Msg, b)
		}
	}))
}
