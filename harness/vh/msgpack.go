package vh

import (
	"encoding/binary"
	"fmt"
)

// A small, strict MessagePack decoder written for the harness (independent of the agent's fastmsgpack encoder).
// It supports exactly the types a Forward event / message may contain.

type MPKind int

const (
	MPNil MPKind = iota
	MPBool
	MPInt
	MPStr
	MPBin
	MPArray
	MPMap
	MPExt
	MPFloat
)

type MPValue struct {
	Kind    MPKind
	Int     int64
	Bytes   []byte // str / bin / ext payload
	ExtType int8
	Array   []MPValue
	Keys    []MPValue // map keys in order
	Vals    []MPValue
	Bool    bool
	Float   float64
	Off     int // offset of the first byte of this value in the decoded buffer
	End     int // offset after the last byte
}

type mpDecoder struct {
	b   []byte
	pos int
}

func (d *mpDecoder) need(n int) error {
	if d.pos+n > len(d.b) {
		return fmt.Errorf("truncated at offset %d (need %d of %d)", d.pos, n, len(d.b))
	}
	return nil
}

// MPDecode decodes exactly one value and returns the number of bytes consumed.
func MPDecode(b []byte) (MPValue, int, error) {
	d := &mpDecoder{b: b}
	v, err := d.value(0)
	return v, d.pos, err
}

func (d *mpDecoder) value(depth int) (MPValue, error) {
	off := d.pos
	v, err := d.value1(depth)
	v.Off, v.End = off, d.pos
	return v, err
}

func (d *mpDecoder) value1(depth int) (MPValue, error) {
	if depth > 16 {
		return MPValue{}, fmt.Errorf("nesting too deep")
	}
	if err := d.need(1); err != nil {
		return MPValue{}, err
	}
	c := d.b[d.pos]
	d.pos++
	switch {
	case c <= 0x7f:
		return MPValue{Kind: MPInt, Int: int64(c)}, nil
	case c >= 0xe0:
		return MPValue{Kind: MPInt, Int: int64(int8(c))}, nil
	case c >= 0xa0 && c <= 0xbf:
		return d.str(int(c & 0x1f))
	case c >= 0x90 && c <= 0x9f:
		return d.array(int(c&0x0f), depth)
	case c >= 0x80 && c <= 0x8f:
		return d.mapv(int(c&0x0f), depth)
	}
	switch c {
	case 0xc0:
		return MPValue{Kind: MPNil}, nil
	case 0xc2, 0xc3:
		return MPValue{Kind: MPBool, Bool: c == 0xc3}, nil
	case 0xc4, 0xc5, 0xc6:
		n, err := d.length(1 << (c - 0xc4))
		if err != nil {
			return MPValue{}, err
		}
		v, err := d.str(n)
		v.Kind = MPBin
		return v, err
	case 0xd9, 0xda, 0xdb:
		n, err := d.length(1 << (c - 0xd9))
		if err != nil {
			return MPValue{}, err
		}
		return d.str(n)
	case 0xdc, 0xdd:
		n, err := d.length(2 << (c - 0xdc))
		if err != nil {
			return MPValue{}, err
		}
		return d.array(n, depth)
	case 0xde, 0xdf:
		n, err := d.length(2 << (c - 0xde))
		if err != nil {
			return MPValue{}, err
		}
		return d.mapv(n, depth)
	case 0xd4, 0xd5, 0xd6, 0xd7, 0xd8: // fixext 1,2,4,8,16
		n := 1 << (c - 0xd4)
		if err := d.need(1 + n); err != nil {
			return MPValue{}, err
		}
		v := MPValue{Kind: MPExt, ExtType: int8(d.b[d.pos]), Bytes: d.b[d.pos+1 : d.pos+1+n]}
		d.pos += 1 + n
		return v, nil
	case 0xc7, 0xc8, 0xc9:
		n, err := d.length(1 << (c - 0xc7))
		if err != nil {
			return MPValue{}, err
		}
		if err := d.need(1 + n); err != nil {
			return MPValue{}, err
		}
		v := MPValue{Kind: MPExt, ExtType: int8(d.b[d.pos]), Bytes: d.b[d.pos+1 : d.pos+1+n]}
		d.pos += 1 + n
		return v, nil
	case 0xcc, 0xcd, 0xce, 0xcf:
		sz := 1 << (c - 0xcc)
		if err := d.need(sz); err != nil {
			return MPValue{}, err
		}
		var u uint64
		for i := 0; i < sz; i++ {
			u = u<<8 | uint64(d.b[d.pos+i])
		}
		d.pos += sz
		return MPValue{Kind: MPInt, Int: int64(u)}, nil
	case 0xd0, 0xd1, 0xd2, 0xd3:
		sz := 1 << (c - 0xd0)
		if err := d.need(sz); err != nil {
			return MPValue{}, err
		}
		var u uint64
		for i := 0; i < sz; i++ {
			u = u<<8 | uint64(d.b[d.pos+i])
		}
		d.pos += sz
		shift := uint(64 - 8*sz)
		return MPValue{Kind: MPInt, Int: int64(u<<shift) >> shift}, nil
	case 0xca:
		if err := d.need(4); err != nil {
			return MPValue{}, err
		}
		d.pos += 4
		return MPValue{Kind: MPFloat}, nil
	case 0xcb:
		if err := d.need(8); err != nil {
			return MPValue{}, err
		}
		d.pos += 8
		return MPValue{Kind: MPFloat}, nil
	}
	return MPValue{}, fmt.Errorf("unsupported type byte 0x%02x at offset %d", c, d.pos-1)
}

func (d *mpDecoder) length(sz int) (int, error) {
	if err := d.need(sz); err != nil {
		return 0, err
	}
	var n int
	switch sz {
	case 1:
		n = int(d.b[d.pos])
	case 2:
		n = int(binary.BigEndian.Uint16(d.b[d.pos:]))
	case 4:
		n = int(binary.BigEndian.Uint32(d.b[d.pos:]))
	}
	d.pos += sz
	return n, nil
}

func (d *mpDecoder) str(n int) (MPValue, error) {
	if err := d.need(n); err != nil {
		return MPValue{}, err
	}
	v := MPValue{Kind: MPStr, Bytes: d.b[d.pos : d.pos+n]}
	d.pos += n
	return v, nil
}

func (d *mpDecoder) array(n int, depth int) (MPValue, error) {
	v := MPValue{Kind: MPArray}
	for i := 0; i < n; i++ {
		e, err := d.value(depth + 1)
		if err != nil {
			return v, err
		}
		v.Array = append(v.Array, e)
	}
	return v, nil
}

func (d *mpDecoder) mapv(n int, depth int) (MPValue, error) {
	v := MPValue{Kind: MPMap}
	for i := 0; i < n; i++ {
		k, err := d.value(depth + 1)
		if err != nil {
			return v, err
		}
		e, err := d.value(depth + 1)
		if err != nil {
			return v, err
		}
		v.Keys = append(v.Keys, k)
		v.Vals = append(v.Vals, e)
	}
	return v, nil
}

// ForwardEvent is a decoded [time, record] entry.
type ForwardEvent struct {
	Sec, Nsec uint32
	Fields    map[string]string // top-level string fields
	Env       map[string]string // nested "environment" map (nil if absent)
	Order     []string          // top-level keys in encoding order
}

// DecodeForwardEvent strictly decodes one event entry: fixarray(2) [EventTime ext8 type 0, map of str->str | "environment"->map].
func DecodeForwardEvent(v MPValue) (*ForwardEvent, error) {
	if v.Kind != MPArray || len(v.Array) != 2 {
		return nil, fmt.Errorf("event is not an array of 2")
	}
	tm, rec := v.Array[0], v.Array[1]
	if tm.Kind != MPExt || tm.ExtType != 0 || len(tm.Bytes) != 8 {
		return nil, fmt.Errorf("time is not EventTime ext(0,8)")
	}
	ev := &ForwardEvent{Sec: binary.BigEndian.Uint32(tm.Bytes[0:4]), Nsec: binary.BigEndian.Uint32(tm.Bytes[4:8]), Fields: map[string]string{}}
	if rec.Kind != MPMap {
		return nil, fmt.Errorf("record is not a map")
	}
	for i, k := range rec.Keys {
		if k.Kind != MPStr {
			return nil, fmt.Errorf("record key %d is not a string", i)
		}
		key := string(k.Bytes)
		if _, dup := ev.Fields[key]; dup || (key == "environment" && ev.Env != nil) {
			return nil, fmt.Errorf("duplicate key %q", key)
		}
		ev.Order = append(ev.Order, key)
		val := rec.Vals[i]
		if key == "environment" && val.Kind == MPMap {
			ev.Env = map[string]string{}
			for j, ek := range val.Keys {
				if ek.Kind != MPStr || val.Vals[j].Kind != MPStr {
					return nil, fmt.Errorf("environment entry %d is not str->str", j)
				}
				if _, dup := ev.Env[string(ek.Bytes)]; dup {
					return nil, fmt.Errorf("duplicate environment key %q", ek.Bytes)
				}
				ev.Env[string(ek.Bytes)] = string(val.Vals[j].Bytes)
			}
			continue
		}
		if val.Kind != MPStr {
			return nil, fmt.Errorf("value of %q is not a string", key)
		}
		ev.Fields[key] = string(val.Bytes)
	}
	return ev, nil
}

// RefUnescape is the harness's own implementation of the documented syslog unescaping:
// \b \f \n \r \t become control characters, \\ becomes \, any other \x stays as is, a trailing lone backslash stays.
func RefUnescape(s string) string {
	out := make([]byte, 0, len(s))
	for i := 0; i < len(s); i++ {
		c := s[i]
		if c != '\\' || i == len(s)-1 {
			out = append(out, c)
			continue
		}
		i++
		switch s[i] {
		case 'b':
			out = append(out, '\b')
		case 'f':
			out = append(out, '\f')
		case 'n':
			out = append(out, '\n')
		case 'r':
			out = append(out, '\r')
		case 't':
			out = append(out, '\t')
		case '\\':
			out = append(out, '\\')
		default:
			out = append(out, '\\', s[i])
		}
	}
	return string(out)
}
