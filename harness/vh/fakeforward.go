package vh

import (
	"crypto/ecdsa"
	"crypto/elliptic"
	"crypto/rand"
	"crypto/tls"
	"crypto/x509"
	"crypto/x509/pkix"
	"math/big"
	"context"
	"fmt"
	"net"
	"sync"
	"syscall"
	"time"

	"github.com/relex/fluentlib/protocol/forwardprotocol"
)

// Scripted fake Fluentd Forward server. One script entry per accepted upstream connection (in accept order);
// after the script is exhausted every connection is healthy.

type UpstreamAttempt struct {
	Kind    string `json:"kind"`              // healthy | refuse | reset | neverack | late | wrongid | stopreading | silent (accepts, never sends or reads anything) | rejectlogin (with a shared key: the handshake ends with a refusal)
	After   int    `json:"after,omitempty"`   // reset: number of messages received (and acknowledged) before the reset
	AckLast bool   `json:"ackLast,omitempty"` // reset: whether the message that triggers the reset is still acknowledged... (false = received but never acknowledged)
	Delay   int    `json:"delay,omitempty"`   // late: milliseconds before each ACK
}

// RecvMessage is one completely received Forward message.
type RecvMessage struct {
	Arrival int // global arrival index on this server
	Conn    int // upstream connection index (accept order)
	Msg     *ForwardMessage
	Raw     []byte
	Acked   bool      // the ACK was written successfully
	At      time.Time // when the message had been received completely
	AckAt   time.Time // when the ACK had been written
	AckSeq  int       // global index of the ack event
}

type FakeForward struct {
	ln           net.Listener
	Addr         string
	mu           sync.Mutex
	script       []UpstreamAttempt
	accepted     int
	Messages     []*RecvMessage
	events       int
	conns        []net.Conn
	closed       bool
	down         bool
	wg           sync.WaitGroup
	Pings        int
	DecodeErrors []string
	SmallRecvBuf bool
	TLS          *tls.Config // non-nil: every accepted connection starts with a TLS handshake (the agent's client does not verify certificates)
	Secret       string // non-empty: the server performs the Forward handshake (HELO/PING/PONG) with this shared key on every connection
}

// PortHolder keeps a TCP port reserved for this process without listening on it: a socket that is bound (with
// SO_REUSEPORT) but never listens. While a FakeForward on the same port is closed ("upstream down"), connection attempts
// get ECONNREFUSED and no other process can be given the port (several harness processes run at the same time).
type PortHolder struct {
	fd   int
	Addr string
}

func reusePortControl(network, address string, c syscall.RawConn) error {
	var serr error
	if err := c.Control(func(fd uintptr) {
		serr = syscall.SetsockoptInt(int(fd), syscall.SOL_SOCKET, 0xf /* SO_REUSEPORT */, 1)
	}); err != nil {
		return err
	}
	return serr
}

// NewPortHolder reserves a free loopback port.
func NewPortHolder() (*PortHolder, error) {
	fd, err := syscall.Socket(syscall.AF_INET, syscall.SOCK_STREAM, 0)
	if err != nil {
		return nil, err
	}
	// Bind WITHOUT SO_REUSEPORT so that the kernel picks a port nobody else has (with the option set at bind time, port 0
	// may be resolved to a port that another process holds with the same option, and connections would then be balanced
	// between the two processes); set the option afterwards so that this process's own listener can join the port.
	if err := syscall.Bind(fd, &syscall.SockaddrInet4{Port: 0, Addr: [4]byte{127, 0, 0, 1}}); err != nil {
		syscall.Close(fd)
		return nil, err
	}
	if err := syscall.SetsockoptInt(fd, syscall.SOL_SOCKET, 0xf, 1); err != nil {
		syscall.Close(fd)
		return nil, err
	}
	sa, err := syscall.Getsockname(fd)
	if err != nil {
		syscall.Close(fd)
		return nil, err
	}
	port := sa.(*syscall.SockaddrInet4).Port
	return &PortHolder{fd: fd, Addr: fmt.Sprintf("127.0.0.1:%d", port)}, nil
}

// Release gives the port back.
func (p *PortHolder) Release() { syscall.Close(p.fd) }

// NewFakeForward starts a server on addr, which must be reserved by a PortHolder of this process.
func NewFakeForward(addr string) (*FakeForward, error) {
	lc := net.ListenConfig{Control: reusePortControl}
	var ln net.Listener
	var err error
	for i := 0; i < 50; i++ {
		ln, err = lc.Listen(context.Background(), "tcp", addr)
		if err == nil {
			break
		}
		time.Sleep(10 * time.Millisecond)
	}
	if err != nil {
		return nil, err
	}
	f := &FakeForward{ln: ln, Addr: ln.Addr().String()}
	f.wg.Add(1)
	go f.acceptLoop()
	return f, nil
}

// SetScript replaces the script for the connections accepted from now on.
func (f *FakeForward) SetScript(s []UpstreamAttempt) {
	f.mu.Lock()
	f.script = append([]UpstreamAttempt(nil), s...)
	f.mu.Unlock()
}

// Close stops the server and drops all connections.
func (f *FakeForward) Close() {
	f.mu.Lock()
	f.closed = true
	conns := f.conns
	f.mu.Unlock()
	f.ln.Close()
	for _, c := range conns {
		c.Close()
	}
	f.wg.Wait()
}

func (f *FakeForward) acceptLoop() {
	defer f.wg.Done()
	for {
		c, err := f.ln.Accept()
		if err != nil {
			return
		}
		f.mu.Lock()
		if f.closed {
			f.mu.Unlock()
			c.Close() // accepted while Close() was already collecting the connections
			continue
		}
		idx := f.accepted
		f.accepted++
		var at UpstreamAttempt
		if len(f.script) > 0 {
			at = f.script[0]
			f.script = f.script[1:]
		} else {
			at = UpstreamAttempt{Kind: "healthy"}
		}
		f.conns = append(f.conns, c)
		small := f.SmallRecvBuf
		f.mu.Unlock()
		if small || at.Kind == "stopreading" {
			if tc, ok := c.(*net.TCPConn); ok {
				_ = tc.SetReadBuffer(4096)
			}
		}
		f.wg.Add(1)
		go f.serve(idx, c, at)
	}
}

func ackBytes(id string) []byte {
	out := []byte{0x81, 0xa3, 'a', 'c', 'k'}
	return appendStr(out, []byte(id))
}

func (f *FakeForward) serve(idx int, c net.Conn, at UpstreamAttempt) {
	defer f.wg.Done()
	defer c.Close()
	switch at.Kind {
	case "refuse":
		if tc, ok := c.(*net.TCPConn); ok {
			_ = tc.SetLinger(0) // RST
		}
		return
	case "rejectlogin":
		f.mu.Lock()
		noKey := f.Secret == ""
		f.mu.Unlock()
		if noKey { // without a shared key there is no login to reject: one more refused connection
			if tc, ok := c.(*net.TCPConn); ok {
				_ = tc.SetLinger(0)
			}
			return
		}
	case "silent":
		// accept and then say nothing at all: with a shared key configured the client waits for the HELO that never comes
		f.waitClosed(c)
		return
	}
	f.mu.Lock()
	secret := f.Secret
	tlsCfg := f.TLS
	f.mu.Unlock()
	rawc := c // the TCP connection (linger / peek); c becomes the TLS layer when the upstream speaks TLS
	if tlsCfg != nil {
		tc := tls.Server(c, tlsCfg)
		_ = tc.SetDeadline(time.Now().Add(3 * time.Second))
		if err := tc.Handshake(); err != nil {
			return
		}
		_ = tc.SetDeadline(time.Time{})
		c = tc
	}
	if secret != "" {
		reject := at.Kind == "rejectlogin"
		ok, err := forwardprotocol.DoServerHandshake(c, secret, 3*time.Second, func(_, _, _ string) (bool, string) {
			if reject {
				return false, "scripted rejection" // the handshake completes with a PONG that refuses the login
			}
			return true, ""
		})
		if reject {
			return
		}
		if err != nil || !ok {
			return
		}
		_ = c.SetDeadline(time.Time{})
	}
	if at.Kind == "stopreading" {
		// never read: the client's writes fill the socket buffers and block
		f.waitClosed(rawc)
		return
	}
	var buf []byte
	tmp := make([]byte, 64*1024)
	received := 0
	wrongSent := false
	for {
		n, err := c.Read(tmp)
		timeout := false
		if ne, ok := err.(net.Error); ok && ne.Timeout() {
			timeout, err = true, nil
		}
		if n > 0 {
			buf = append(buf, tmp[:n]...)
		}
		if n == len(tmp) && len(buf) > 512*1024 && err == nil {
			// a full read in the middle of a large message: more is on its way. Re-scanning the incomplete message after
			// every read is quadratic; read on, with a short deadline in case the message happened to end exactly here.
			_ = c.SetReadDeadline(time.Now().Add(20 * time.Millisecond))
			continue
		}
		if n > 0 || timeout {
			_ = c.SetReadDeadline(time.Time{})
			for {
				v, used, derr := MPDecode(buf)
				if derr != nil {
					break // incomplete (or garbage: stays incomplete until the connection ends)
				}
				raw := append([]byte(nil), buf[:used]...)
				buf = buf[used:]
				_ = v
				msg, merr := DecodeForwardMessage(raw)
				if merr != nil {
					f.mu.Lock()
					f.DecodeErrors = append(f.DecodeErrors, fmt.Sprintf("conn %d: %v", idx, merr))
					f.mu.Unlock()
					continue
				}
				if !msg.HasChunk || msg.OptChunk == "" {
					f.mu.Lock()
					f.Pings++
					f.mu.Unlock()
					continue // ping: no ACK expected
				}
				received++
				rm := &RecvMessage{Conn: idx, Msg: msg, Raw: raw, At: time.Now()}
				f.mu.Lock()
				rm.Arrival = f.events
				f.events++
				f.Messages = append(f.Messages, rm)
				f.mu.Unlock()
				switch at.Kind {
				case "neverack":
					continue
				case "reset":
					if received > at.After {
						if tc, ok := rawc.(*net.TCPConn); ok {
							_ = tc.SetLinger(0)
						}
						return
					}
				case "late":
					time.Sleep(time.Duration(at.Delay) * time.Millisecond)
				case "wrongid":
					if !wrongSent {
						wrongSent = true
						_, _ = c.Write(ackBytes("bogus-" + msg.OptChunk))
					}
				}
				// the ACK is written under the lock: a snapshot must never see a message as unacknowledged whose ACK the
				// agent may already have received (the few bytes never block on a live socket)
				f.mu.Lock()
				_ = c.SetWriteDeadline(time.Now().Add(2 * time.Second))
				if _, werr := c.Write(ackBytes(msg.OptChunk)); werr == nil {
					rm.Acked = true
					rm.AckAt = time.Now()
					rm.AckSeq = f.events
					f.events++
				}
				f.mu.Unlock()
			}
		}
		if err != nil {
			return
		}
	}
}

func (f *FakeForward) waitClosed(c net.Conn) {
	// block until the peer closes or the server is closed, without consuming data: poll the socket error state
	for {
		f.mu.Lock()
		closed := f.closed
		f.mu.Unlock()
		if closed {
			return
		}
		if tc, ok := c.(*net.TCPConn); ok {
			raw, err := tc.SyscallConn()
			if err != nil {
				return
			}
			dead := false
			_ = raw.Control(func(fd uintptr) {
				var b [1]byte
				n, _, rerr := syscall.Recvfrom(int(fd), b[:], syscall.MSG_PEEK|syscall.MSG_DONTWAIT)
				if n == 0 && rerr == nil {
					dead = true // orderly shutdown by the peer
				}
				if rerr != nil && rerr != syscall.EAGAIN && rerr != syscall.EWOULDBLOCK {
					dead = true
				}
			})
			if dead {
				return
			}
		}
		time.Sleep(5 * time.Millisecond)
	}
}

// Snapshot returns a copy of the received messages.
func (f *FakeForward) Snapshot() []*RecvMessage {
	f.mu.Lock()
	defer f.mu.Unlock()
	out := make([]*RecvMessage, len(f.Messages))
	for i, m := range f.Messages {
		cp := *m
		out[i] = &cp
	}
	return out
}

// Accepted returns the number of accepted upstream connections.
func (f *FakeForward) Accepted() int {
	f.mu.Lock()
	defer f.mu.Unlock()
	return f.accepted
}

var (
	selfSignedOnce sync.Once
	selfSigned     *tls.Config
)

// SelfSignedTLS returns a server configuration with a certificate made up on the spot (one per process).
func SelfSignedTLS() *tls.Config {
	selfSignedOnce.Do(func() {
		key, err := ecdsa.GenerateKey(elliptic.P256(), rand.Reader)
		if err != nil {
			panic("HARNESS-ERROR: " + err.Error())
		}
		tmpl := &x509.Certificate{SerialNumber: big.NewInt(1), Subject: pkix.Name{CommonName: "fake-forward"}, NotBefore: time.Now().Add(-time.Hour), NotAfter: time.Now().Add(24 * time.Hour),
			KeyUsage: x509.KeyUsageDigitalSignature, ExtKeyUsage: []x509.ExtKeyUsage{x509.ExtKeyUsageServerAuth}}
		der, err := x509.CreateCertificate(rand.Reader, tmpl, tmpl, &key.PublicKey, key)
		if err != nil {
			panic("HARNESS-ERROR: " + err.Error())
		}
		selfSigned = &tls.Config{Certificates: []tls.Certificate{{Certificate: [][]byte{der}, PrivateKey: key}}}
	})
	return selfSigned
}
