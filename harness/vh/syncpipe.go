package vh

import (
	"fmt"
	"os"
	"time"

	"github.com/relex/gotils/logger"
	"github.com/relex/gotils/promexporter/promreg"
	"github.com/relex/slog-agent/base"
	"github.com/relex/slog-agent/base/bsupport"
	"github.com/relex/slog-agent/run"
)

// RepoDir is the root of the agent's source tree (scratch copy during self-tests).
func RepoDir() string {
	if d := os.Getenv("VERIF_REPO"); d != "" {
		return d
	}
	return "/repo"
}

// SyncPipeline runs the parse -> extract -> select metric keys -> transform -> serialize -> pack path of a loaded
// configuration synchronously in the caller's goroutine, mirroring bsupport.LogProcessingWorker.onInput (including the
// per-output Release), so that panics are recoverable and shrinkable.
type SyncPipeline struct {
	Conf        run.Config
	Schema      base.LogSchema
	Allocator   *base.LogAllocator
	MF          *promreg.MetricFactory
	InputCount  *base.LogInputCounterSet
	Parser      base.LogParser
	ProcCount   *base.LogProcessCounterSet
	Transforms  []base.LogTransformFunc
	Serializers []base.LogSerializer
	ChunkMakers []base.LogChunkMaker
	OutputNames []string
	Chunks      [][]*base.LogChunk // per output
	FallbackTS  time.Time
	Observe     func(stage string, rec *base.LogRecord) // optional: called after parsing ("parsed") and after the transforms ("transformed")
}

// SyncOptions tune NewSyncPipelineOpt.
type SyncOptions struct {
	Allocator  *base.LogAllocator // share an allocator (nil = own)
	NoChunks   bool               // do not create chunk makers (serialized streams only)
	MetricName string             // metric prefix (default "sp_")
}

// NewSyncPipeline instantiates everything from an accepted configuration.
func NewSyncPipeline(conf run.Config, schema base.LogSchema, tag string) (*SyncPipeline, error) {
	return NewSyncPipelineOpt(conf, schema, tag, SyncOptions{})
}

// NewSyncPipelineOpt is NewSyncPipeline with options.
func NewSyncPipelineOpt(conf run.Config, schema base.LogSchema, tag string, opt SyncOptions) (*SyncPipeline, error) {
	if len(conf.Inputs) == 0 {
		return nil, fmt.Errorf("no inputs")
	}
	p := &SyncPipeline{Conf: conf, Schema: schema, FallbackTS: time.Unix(1700000000, 0)}
	p.Allocator = opt.Allocator
	if p.Allocator == nil {
		p.Allocator = base.NewLogAllocator(schema, len(conf.OutputBuffersPairs))
	}
	prefix := opt.MetricName
	if prefix == "" {
		prefix = "sp_"
	}
	p.MF = promreg.NewMetricFactory(prefix, nil, nil)
	p.InputCount = base.NewLogInputCounter(p.MF.AddOrGetPrefix("input_", nil, nil))
	parser, err := conf.Inputs[0].Value.NewParser(logger.Root(), p.Allocator, schema, p.InputCount)
	if err != nil {
		return nil, err
	}
	p.Parser = parser
	for _, pair := range conf.OutputBuffersPairs {
		p.OutputNames = append(p.OutputNames, pair.Name)
	}
	p.ProcCount = base.NewLogProcessCounter(p.MF.AddOrGetPrefix("process_", nil, nil), schema, schema.MustCreateFieldLocators(conf.MetricKeys), p.OutputNames)
	p.Transforms = bsupport.NewTransformsFromConfig(conf.Transformations, schema, logger.Root(), p.ProcCount)
	for _, pair := range conf.OutputBuffersPairs {
		p.Serializers = append(p.Serializers, pair.OutputConfig.Value.NewSerializer(logger.Root(), schema, tag))
		if !opt.NoChunks {
			p.ChunkMakers = append(p.ChunkMakers, pair.OutputConfig.Value.NewChunkMaker(logger.Root(), tag))
		}
	}
	p.Chunks = make([][]*base.LogChunk, len(p.ChunkMakers))
	return p, nil
}

// ProcResult describes what happened to one input.
type ProcResult struct {
	Parsed  bool     // the parser (incl. extraction transforms) returned a record
	Passed  bool     // the pipeline transforms passed it
	Streams [][]byte // serialized record per output (copies)
}

// Process feeds one message (without trailing newline).
func (p *SyncPipeline) Process(line []byte) ProcResult {
	var r ProcResult
	record := p.Parser.Parse(line, p.FallbackTS)
	if record == nil {
		return r
	}
	r.Parsed = true
	if p.Observe != nil {
		p.Observe("parsed", record)
	}
	icounter := p.ProcCount.SelectMetricKeySet(record)
	if bsupport.RunTransforms(record, p.Transforms) == base.DROP {
		icounter.CountRecordDrop(record)
		p.Allocator.Release(record)
		return r
	}
	icounter.CountRecordPass(record)
	r.Passed = true
	if p.Observe != nil {
		p.Observe("transformed", record)
	}
	for i, ser := range p.Serializers {
		stream := ser.SerializeRecord(record)
		p.Allocator.Release(record)
		p.ProcCount.CountStream(i, stream)
		r.Streams = append(r.Streams, append([]byte(nil), stream...))
		if i < len(p.ChunkMakers) {
			if ch := p.ChunkMakers[i].WriteStream(stream); ch != nil {
				p.ProcCount.CountChunk(i, ch)
				p.Chunks[i] = append(p.Chunks[i], ch)
			}
		}
	}
	if len(p.Serializers) == 0 {
		// no outputs: the real worker never releases such a record either; nothing to do
	}
	return r
}

// ProcessBatch mirrors the two stages of the agent: the listener goroutine parses a batch of lines (parser and input
// extractions) into records that stay in flight together, and only then the pipeline worker transforms and serializes
// them one after the other. Every line buffer is overwritten as soon as it has been parsed, like the reader's buffer.
func (p *SyncPipeline) ProcessBatch(lines [][]byte) []ProcResult {
	out := make([]ProcResult, len(lines))
	recs := make([]*base.LogRecord, len(lines))
	for i, line := range lines {
		recs[i] = p.Parser.Parse(line, p.FallbackTS)
		for j := range line {
			line[j] = '~'
		}
		if recs[i] != nil {
			out[i].Parsed = true
			if p.Observe != nil {
				p.Observe("parsed", recs[i])
			}
		}
	}
	for i, record := range recs {
		if record == nil {
			continue
		}
		r := &out[i]
		icounter := p.ProcCount.SelectMetricKeySet(record)
		if bsupport.RunTransforms(record, p.Transforms) == base.DROP {
			icounter.CountRecordDrop(record)
			p.Allocator.Release(record)
			continue
		}
		icounter.CountRecordPass(record)
		r.Passed = true
		if p.Observe != nil {
			p.Observe("transformed", record)
		}
		for k, ser := range p.Serializers {
			stream := ser.SerializeRecord(record)
			p.Allocator.Release(record)
			p.ProcCount.CountStream(k, stream)
			r.Streams = append(r.Streams, append([]byte(nil), stream...))
			if k < len(p.ChunkMakers) {
				if ch := p.ChunkMakers[k].WriteStream(stream); ch != nil {
					p.ProcCount.CountChunk(k, ch)
					p.Chunks[k] = append(p.Chunks[k], ch)
				}
			}
		}
	}
	return out
}

// Flush flushes the chunk makers and the counters.
func (p *SyncPipeline) Flush() {
	for i, cm := range p.ChunkMakers {
		if ch := cm.FlushBuffer(); ch != nil {
			p.ProcCount.CountChunk(i, ch)
			p.Chunks[i] = append(p.Chunks[i], ch)
		}
	}
	p.InputCount.UpdateMetrics()
	p.ProcCount.UpdateMetrics()
}
