package vh

import (
	"net"
	"testing"
	"time"
)

func TestPortHolderRefuses(t *testing.T) {
	h, err := NewPortHolder()
	if err != nil {
		t.Fatal(err)
	}
	defer h.Release()
	t0 := time.Now()
	_, err = net.DialTimeout("tcp", h.Addr, time.Second)
	if err == nil {
		t.Fatal("connect to a held, non-listening port succeeded")
	}
	if time.Since(t0) > 500*time.Millisecond {
		t.Fatalf("connect did not fail fast: %v (%v)", time.Since(t0), err)
	}
	s, err := NewFakeForward(h.Addr)
	if err != nil {
		t.Fatal(err)
	}
	c, err := net.DialTimeout("tcp", h.Addr, time.Second)
	if err != nil {
		t.Fatal("connect to the fake server failed: ", err)
	}
	c.Close()
	s.Close()
	if _, err = net.DialTimeout("tcp", h.Addr, time.Second); err == nil {
		t.Fatal("connect after Close succeeded")
	}
	// another plain listener must not be able to take the port
	if l, err := net.Listen("tcp", h.Addr); err == nil {
		l.Close()
		t.Fatal("a plain listener could bind the held port")
	}
}

func TestPortHoldersDistinct(t *testing.T) {
	seen := map[string]bool{}
	var hs []*PortHolder
	for i := 0; i < 300; i++ {
		h, err := NewPortHolder()
		if err != nil {
			t.Fatal(err)
		}
		if seen[h.Addr] {
			t.Fatalf("port %s handed out twice", h.Addr)
		}
		seen[h.Addr] = true
		hs = append(hs, h)
	}
	for _, h := range hs {
		h.Release()
	}
}
