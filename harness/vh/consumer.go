package vh

import (
	"sync"

	"github.com/relex/gotils/channels"
	"github.com/relex/gotils/logger"
	"github.com/relex/slog-agent/base"
)

// RecConsumer is a harness-side ChunkConsumer that confirms every chunk it receives and records it.
type RecConsumer struct {
	Name    string
	args    base.ChunkConsumerArgs
	stopped *channels.SignalAwaitable
	mu      sync.Mutex
	Chunks  []base.LogChunk
	sink    *ConsumerLog
}

// ConsumerLog collects chunks of all consumers created through its Override.
type ConsumerLog struct {
	mu     sync.Mutex
	Chunks map[string][]base.LogChunk // by output name, in arrival order
}

func NewConsumerLog() *ConsumerLog { return &ConsumerLog{Chunks: map[string][]base.LogChunk{}} }

// Override is a base.ChunkConsumerOverrideCreator.
func (l *ConsumerLog) Override(_ logger.Logger, name string, _ base.ChunkDecoder, args base.ChunkConsumerArgs) base.ChunkConsumer {
	return &RecConsumer{Name: name, args: args, stopped: channels.NewSignalAwaitable(), sink: l}
}

func (c *RecConsumer) Start()                      { go c.run() }
func (c *RecConsumer) Stopped() channels.Awaitable { return c.stopped }

func (c *RecConsumer) run() {
	defer c.args.OnFinished()
	defer c.stopped.Signal()
	for {
		select {
		case chunk, ok := <-c.args.InputChannel:
			if !ok {
				return
			}
			cp := base.LogChunk{ID: chunk.ID, Data: append([]byte(nil), chunk.Data...), Saved: chunk.Saved}
			c.sink.mu.Lock()
			c.sink.Chunks[c.Name] = append(c.sink.Chunks[c.Name], cp)
			c.sink.mu.Unlock()
			c.args.OnChunkConsumed(chunk)
		case <-c.args.InputClosed.Channel():
			return
		}
	}
}

// Lock / Unlock give readers consistent access to Chunks.
func (l *ConsumerLog) Lock()   { l.mu.Lock() }
func (l *ConsumerLog) Unlock() { l.mu.Unlock() }
