// C11, Datadog requests built by the real event serializer (output/datadog/eventserializer.go, an anchor of the property)
// and the real chunk maker: the main check writes JSON objects of its own through the chunk maker; here the objects come
// from records with generated field values, so "a gzip JSON array ... reproducing the record sequence exactly" is checked
// on what the agent itself would put into a request.
package c11chunk

import (
	"bytes"
	"compress/gzip"
	"encoding/json"
	"fmt"
	"io"
	"sort"
	"strconv"
	"strings"
	"testing"
	"time"
	"unicode/utf8"

	"github.com/relex/gotils/logger"
	"github.com/relex/slog-agent/base"
	"github.com/relex/slog-agent/output/datadog"
	"github.com/relex/slog-agent/util"
	"pgregory.net/rapid"

	"verifharness/vh"
)

type DDRecord struct {
	Values []string `json:"values"` // one per schema field, "" = absent
	Millis int64    `json:"ms"`
	Flush  bool     `json:"flush,omitempty"` // FlushBuffer after this record
}

type DDCase struct {
	Names   []string   `json:"names"`
	Hidden  []int      `json:"hidden"`
	Tag     string     `json:"tag"`
	Records []DDRecord `json:"records"`
}

func runDDEvents(c DDCase) vh.Result {
	res := vh.Result{}
	schema, err := base.NewLogSchema(c.Names, len(c.Names)+1)
	if err != nil {
		panic(err)
	}
	var hidden []string
	for _, h := range c.Hidden {
		hidden = append(hidden, c.Names[h])
	}
	cfg := &datadog.Config{}
	yml := "type: datadog\nserialization:\n  hiddenFields: [" + strings.Join(hidden, ", ") + "]\nupstream:\n  address: https://localhost/api\n  httpTimeout: 30s\n"
	if err := util.UnmarshalYamlString(yml, cfg); err != nil {
		panic(err)
	}
	if err := cfg.VerifyConfig(schema); err != nil {
		panic("harness generated a config that is rejected: " + err.Error())
	}
	ser := cfg.NewSerializer(logger.Root(), schema, c.Tag)
	maker := cfg.NewChunkMaker(logger.Root(), c.Tag)
	alloc := base.NewLogAllocator(schema, 1)

	type want struct {
		fields map[string]string
		exact  map[string]bool
	}
	var wants []want
	var chunks []*base.LogChunk
	special := false
	for _, r := range c.Records {
		rec, _ := alloc.NewRecord(nil)
		w := want{fields: map[string]string{}, exact: map[string]bool{}}
		for i, name := range c.Names {
			v := ""
			if i < len(r.Values) {
				v = r.Values[i]
			}
			rec.Fields[i] = strings.Clone(v)
			isHidden := false
			for _, h := range c.Hidden {
				if h == i {
					isHidden = true
				}
			}
			if v != "" && !isHidden {
				w.fields[name] = v
				w.exact[name] = utf8.ValidString(v) // what becomes of bytes that are not UTF-8 is not documented: only presence is checked
				if strings.ContainsAny(v, "\\\"&<>\u2028\u2029") || strings.IndexFunc(v, func(r rune) bool { return r < 0x20 }) >= 0 {
					special = true
				}
			}
		}
		rec.Fields[len(c.Names)] = "RESERVED-JUNK"
		rec.Timestamp = time.UnixMilli(r.Millis)
		w.fields["timestamp"] = strconv.FormatInt(r.Millis, 10)
		w.exact["timestamp"] = true
		if w.fields["ddtags"] == "" && c.Tag != "" {
			w.fields["ddtags"] = c.Tag
			w.exact["ddtags"] = utf8.ValidString(c.Tag)
		}
		wants = append(wants, w)
		stream := ser.SerializeRecord(rec)
		if ch := maker.WriteStream(stream); ch != nil {
			chunks = append(chunks, ch)
		}
		if r.Flush {
			if ch := maker.FlushBuffer(); ch != nil {
				chunks = append(chunks, ch)
			}
		}
	}
	if ch := maker.FlushBuffer(); ch != nil {
		chunks = append(chunks, ch)
	}

	var got []map[string]string
	seenID := map[string]bool{}
	for ci, ch := range chunks {
		if seenID[ch.ID] || !cfg.MatchChunkID(ch.ID) {
			res.Violation = vh.Fail("chunk:id", "datadog chunk %d: ID %q repeated or not accepted by MatchChunkID", ci, ch.ID)
			return res
		}
		seenID[ch.ID] = true
		zr, err := gzip.NewReader(bytes.NewReader(ch.Data))
		if err != nil {
			res.Violation = vh.Fail("chunk:dd-not-gzip", "chunk %d: %v", ci, err)
			return res
		}
		raw, err := io.ReadAll(zr)
		if err != nil {
			res.Violation = vh.Fail("chunk:dd-not-gzip", "chunk %d: %v", ci, err)
			return res
		}
		var arr []map[string]string
		dec := json.NewDecoder(bytes.NewReader(raw))
		if err := dec.Decode(&arr); err != nil {
			res.Violation = vh.Fail("chunk:dd-not-json-array", "chunk %d built by the agent's own serializer is no JSON array of string maps: %v (%.200q)", ci, err, raw)
			return res
		}
		if dec.More() {
			res.Violation = vh.Fail("chunk:dd-not-json-array", "chunk %d: data behind the JSON array (%.200q)", ci, raw)
			return res
		}
		if len(arr) == 0 {
			res.Violation = vh.Fail("chunk:empty", "datadog chunk %d holds no record", ci)
			return res
		}
		got = append(got, arr...)
	}
	if len(got) != len(wants) {
		res.Violation = vh.Fail("chunk:sequence", "%d records were written, the chunks hold %d", len(wants), len(got))
		return res
	}
	for i, w := range wants {
		g := got[i]
		for k, v := range w.fields {
			gv, ok := g[k]
			if !ok || (w.exact[k] && gv != v) {
				res.Violation = vh.Fail("chunk:dd-event-fields", "record %d: field %q is %q (present=%v) in the request, the record has %q\nentry: %v", i, k, gv, ok, v, g)
				return res
			}
		}
		for k := range g {
			if _, ok := w.fields[k]; !ok {
				res.Violation = vh.Fail("chunk:dd-event-fields", "record %d: the request carries %q=%q, which is no visible non-empty field of the record", i, k, g[k])
				return res
			}
		}
	}
	res.NonTrivial = special || len(chunks) > 1
	if special {
		res.Classes = append(res.Classes, "value-with-characters-JSON-escapes")
	}
	if len(chunks) > 1 {
		res.Classes = append(res.Classes, "several-chunks")
	}
	if len(c.Hidden) > 0 {
		res.Classes = append(res.Classes, "hidden-fields")
	}
	sort.Strings(res.Classes)
	return res
}

var ddFieldPool = []string{"host", "app", "log", "level", "ddtags", "ddsource", "service", "hostname", "source"}

// ddAtoms: text JSON has to escape or that looks like an escape already
var ddAtoms = []string{"a", "msg ", "é", "\\", "\"", "&", "<", ">", "\\u0026", "\\u003c", "\\u003e", "\\u2028", "\\n", "\n", "\t", "\x00", "\x1f", "\x7f", "\u2028", "\u2029", "\\\\", "\\\"", "/", "\\/",
	"{\"k\":\"v&w\"}", "C:\\users\\u0026me", "\xff", "\xc3", "\xe2\x82", "😀", "'", "\\u", "\\u00", "%5Cu0026"}

func genDDEvents(t *rapid.T) DDCase {
	var c DDCase
	n := rapid.IntRange(1, len(ddFieldPool)).Draw(t, "nFields")
	perm := rapid.Permutation(ddFieldPool).Draw(t, "names")
	c.Names = append([]string(nil), perm[:n]...)
	for i := range c.Names {
		if rapid.IntRange(0, 4).Draw(t, "hide") == 0 {
			c.Hidden = append(c.Hidden, i)
		}
	}
	c.Tag = rapid.SampledFrom([]string{"env:prod", "t", "a&b", "x\\u0026y", "svc:\"q\"", ""}).Draw(t, "tag")
	nrec := rapid.IntRange(1, 12).Draw(t, "nRecords")
	for r := 0; r < nrec; r++ {
		rec := DDRecord{Millis: rapid.Int64Range(0, 4102444800000).Draw(t, "ms"), Flush: rapid.IntRange(0, 5).Draw(t, "flush") == 0}
		for range c.Names {
			var b strings.Builder
			for k := rapid.IntRange(0, 5).Draw(t, "atoms"); k > 0; k-- {
				b.WriteString(rapid.SampledFrom(ddAtoms).Draw(t, "atom"))
			}
			rec.Values = append(rec.Values, b.String())
		}
		c.Records = append(c.Records, rec)
	}
	return c
}

func enumDDEvents(yield func(DDCase) bool) {
	// every atom alone, doubled, and between plain text, in a visible field and in the tag position (ddtags of the record)
	for _, a := range ddAtoms {
		for _, v := range []string{a, a + a, "x" + a + "y", a + "\\", "\\" + a} {
			c := DDCase{Names: []string{"log", "host", "ddtags"}, Tag: "env:t",
				Records: []DDRecord{{Values: []string{"plain", "h", ""}, Millis: 1}, {Values: []string{v, "h", ""}, Millis: 2}, {Values: []string{"after", v, v}, Millis: 3}}}
			if !yield(c) {
				return
			}
		}
	}
}

func TestC11DatadogEvents(t *testing.T) {
	vh.Run(t, vh.Spec[DDCase]{
		Name: "datadog-events", Gen: genDDEvents, Run: runDDEvents, Enum: enumDDEvents, EnumOnlyShard0: true, Quick: 2000, Thorough: 60000,
		Rule: fmt.Sprintf("records over generated schemas (1-%d fields incl. ddtags, hidden sets, 6 pipeline tags) with values assembled from %d atoms that JSON must escape or that already look like escapes (backslash, quote, & < >, literal \\u0026, control characters, U+2028, bytes that are not UTF-8) through the real Datadog event serializer and chunk maker with flushes; every atom enumerated alone, doubled and embedded; oracle: every chunk is gzip of one JSON array of string maps (decoded by encoding/json, nothing behind it), chunk IDs unique and accepted by MatchChunkID, the concatenated entries are the records in order, each with exactly its visible non-empty fields (byte-exact for values that are valid UTF-8), timestamp in ms and ddtags = the record's own or the pipeline tag; non-trivial = a value JSON has to escape, or more than one chunk", len(ddFieldPool), len(ddAtoms)),
	})
}
