// C11, several pipelines at once: every key set has a chunk maker of its own, and pipelines whose tag template does not use
// every key field carry the same tag. They finalize chunks at the same moments (roll-over under load, the flush tick fires
// in all pipelines together). A single EncodeChunk call cannot be interleaved by the harness, so this sub-check is a
// concurrent one: detection of shared state between chunk makers is probabilistic per case, with thousands of
// finalizations per case.
package c11chunk

import (
	"bytes"
	"fmt"
	"runtime/debug"
	"strconv"
	"sync"
	"testing"

	"github.com/relex/gotils/logger"
	"github.com/relex/slog-agent/base"
	"github.com/relex/slog-agent/output/fluentdforward"
	"pgregory.net/rapid"

	"verifharness/vh"
)

type CCase struct {
	Mode     string `json:"mode"`
	Makers   int    `json:"makers"`   // chunk makers (pipelines) running at the same time, all with the same tag
	Records  int    `json:"records"`  // records per maker
	Size     int    `json:"size"`     // payload bytes per record
	MaxBytes int    `json:"maxBytes"` // chunk byte limit (hook H3)
	FlushAt  int    `json:"flushAt"`  // FlushBuffer after every this many records (0 = only roll-overs)
}

func runConcurrentMakers(c CCase) vh.Result {
	res := vh.Result{}
	oldB, oldR := fluentdforward.SetChunkLimitsForVerif(c.MaxBytes, 0)
	defer fluentdforward.SetChunkLimitsForVerif(oldB, oldR)
	type result struct {
		written [][]byte
		chunks  []*base.LogChunk
	}
	results := make([]result, c.Makers)
	var wg sync.WaitGroup
	var panicMu sync.Mutex
	panicMsg := ""
	start := make(chan struct{})
	for m := 0; m < c.Makers; m++ {
		m := m
		maker, _ := newMaker(Case{Mode: c.Mode, Tag: "same.tag"})
		wg.Add(1)
		go func() {
			defer wg.Done()
			defer func() {
				// a panic inside a chunk maker would kill the pipeline goroutine, i.e. the agent
				if rec := recover(); rec != nil {
					panicMu.Lock()
					if panicMsg == "" {
						panicMsg = fmt.Sprintf("maker %d: panic: %v\n%s", m, rec, debug.Stack())
					}
					panicMu.Unlock()
				}
			}()
			<-start
			r := &results[m]
			scratch := make([]byte, 0, 1024)
			for i := 0; i < c.Records; i++ {
				stream := vh.EncodeSimpleEvent(uint32(1600000000+i), uint32(m), strconv.Itoa(m)+"-"+strconv.Itoa(i), payload(m*100000+i, c.Size))
				r.written = append(r.written, stream)
				scratch = append(scratch[:0], stream...)
				if ch := maker.WriteStream(base.LogStream(scratch)); ch != nil {
					r.chunks = append(r.chunks, ch)
				}
				if c.FlushAt > 0 && (i+1)%c.FlushAt == 0 {
					if ch := maker.FlushBuffer(); ch != nil {
						r.chunks = append(r.chunks, ch)
					}
				}
			}
			if ch := maker.FlushBuffer(); ch != nil {
				r.chunks = append(r.chunks, ch)
			}
		}()
	}
	close(start)
	wg.Wait()
	if panicMsg != "" {
		res.Violation = vh.Fail("chunk:concurrent-panic", "%d chunk makers with the same tag running at the same time: %.1500s", c.Makers, panicMsg)
		res.NonTrivial = true
		return res
	}
	total := 0
	for m, r := range results {
		var got [][]byte
		for ci, ch := range r.chunks {
			msg, err := vh.DecodeForwardMessage(ch.Data)
			if err != nil {
				res.Violation = vh.Fail("chunk:concurrent-malformed", "maker %d of %d (all with the same tag, running at the same time): chunk %d (%s) does not decode: %v", m, c.Makers, ci, ch.ID, err)
				res.NonTrivial = true
				return res
			}
			if msg.Tag != "same.tag" || !msg.HasChunk || msg.OptChunk != ch.ID || !msg.HasSize || int(msg.OptSize) != len(msg.RawEntries) {
				res.Violation = vh.Fail("chunk:concurrent-self-description", "maker %d: chunk %s carries tag %q, option.chunk %q, option.size %d with %d entries", m, ch.ID, msg.Tag, msg.OptChunk, msg.OptSize, len(msg.RawEntries))
				res.NonTrivial = true
				return res
			}
			got = append(got, msg.RawEntries...)
		}
		total += len(r.chunks)
		if len(got) != len(r.written) {
			res.Violation = vh.Fail("chunk:concurrent-sequence", "maker %d: %d records written, its chunks hold %d", m, len(r.written), len(got))
			res.NonTrivial = true
			return res
		}
		for i := range got {
			if !bytes.Equal(got[i], r.written[i]) {
				res.Violation = vh.Fail("chunk:concurrent-foreign-record", "maker %d: entry %d of its chunks is not the record it wrote (another chunk maker with the same tag was finalizing at the same time)\n wrote %.120q\n chunk %.120q", m, i, r.written[i], got[i])
				res.NonTrivial = true
				return res
			}
		}
	}
	res.NonTrivial = total >= 100*c.Makers/2
	res.Classes = append(res.Classes, "mode-"+c.Mode, fmt.Sprintf("makers-%d", c.Makers))
	return res
}

func genConcurrentMakers(t *rapid.T) CCase {
	c := CCase{Mode: rapid.SampledFrom([]string{"Forward", "PackedForward", "CompressedPackedForward"}).Draw(t, "mode")}
	c.Makers = rapid.IntRange(2, 6).Draw(t, "makers")
	c.Records = rapid.IntRange(500, 3000).Draw(t, "records")
	c.Size = rapid.SampledFrom([]int{10, 60, 200}).Draw(t, "size")
	c.MaxBytes = rapid.SampledFrom([]int{300, 1000, 4000}).Draw(t, "maxBytes")
	c.FlushAt = rapid.SampledFrom([]int{0, 0, 3, 10}).Draw(t, "flushAt")
	return c
}

func TestC11ConcurrentMakers(t *testing.T) {
	_ = logger.Root
	vh.Run(t, vh.Spec[CCase]{
		Name: "concurrent-makers", Gen: genConcurrentMakers, Run: runConcurrentMakers, Journal: true, Quick: 150, Thorough: 2000, ShrinkSeconds: 10,
		Rule: "2-6 chunk makers of one Forward configuration, all with the same tag (pipelines of key sets that the tag template does not tell apart), run at the same time in goroutines of their own, 500-3000 records each with chunk limits of 300-4000 bytes and optional flushes, i.e. hundreds to thousands of chunk finalizations per maker; oracle: every maker's chunks decode, describe themselves (tag, option.chunk = ID, option.size = entries) and hold exactly the records this maker wrote, in order; detection of state shared between chunk makers is probabilistic per case; non-trivial = at least 50 chunks per maker on average",
	})
}
