// C11 — chunks are complete, ordered, self-describing batches.
package c11chunk

import (
	"bytes"
	"compress/gzip"
	"encoding/json"
	"fmt"
	"io"
	"strconv"
	"testing"
	"unicode/utf8"

	"github.com/relex/gotils/logger"
	"github.com/relex/slog-agent/base"
	"github.com/relex/slog-agent/base/bconfig"
	"github.com/relex/slog-agent/output/datadog"
	"github.com/relex/slog-agent/output/fluentdforward"
	"github.com/relex/slog-agent/util"
	"pgregory.net/rapid"

	"verifharness/vh"
)

func init() { vh.QuietLogs(logger.ErrorLevel) }

type Op struct {
	Flush bool `json:"flush,omitempty"`
	Size  int  `json:"size,omitempty"` // payload size of the written record
}

type Case struct {
	Mode   string `json:"mode"` // Forward | PackedForward | CompressedPackedForward | Datadog
	Tag    string `json:"tag"`
	TagRaw []byte `json:"tagRaw,omitempty"` // Forward modes: the tag as raw bytes (tags are expanded from key values of the logs and need
	// not be valid UTF-8); overrides Tag
	Noise      bool `json:"noise,omitempty"` // payloads are incompressible pseudo-random text instead of a repeating alphabet
	MaxBytes   int  `json:"maxBytes"`        // Forward modes: chunk byte limit (0 = production 7 MiB)
	MaxRecords int  `json:"maxRecords"`      // Forward modes: record limit (0 = unlimited, production)
	Ops        []Op `json:"ops"`
}

const (
	prodForwardMaxBytes = 7 * 1024 * 1024
	ddMaxBytes          = 5 * 1024 * 1024
	ddMaxRecords        = 1000
)

func payload(idx, size int) []byte {
	b := make([]byte, size)
	if noise {
		// incompressible: the compressed mode must produce large messages too
		x := uint64(idx)*0x9E3779B97F4A7C15 + 0x1234567
		for i := range b {
			x ^= x << 13
			x ^= x >> 7
			x ^= x << 17
			b[i] = byte('!' + (x>>32)%90)
		}
		return b
	}
	for i := range b {
		b[i] = byte('a' + (idx+i)%26)
	}
	return b
}

var noise bool // set from Case.Noise for the duration of a case

func newMaker(c Case) (base.LogChunkMaker, bconfig.LogOutputConfig) {
	if len(c.TagRaw) > 0 && c.Mode != "Datadog" {
		c.Tag = string(c.TagRaw)
	}
	if c.Mode == "Datadog" {
		cfg := &datadog.Config{}
		if err := util.UnmarshalYamlString("type: datadog\nserialization:\n  hiddenFields: []\nupstream:\n  address: https://localhost/api\n  httpTimeout: 30s\n", cfg); err != nil {
			panic(err)
		}
		return cfg.NewChunkMaker(logger.Root(), c.Tag), cfg
	}
	cfg := &fluentdforward.Config{}
	yml := "type: fluentdForward\nserialization:\n  environmentFields: [host]\nmessageMode: " + c.Mode + "\nupstream:\n  address: localhost:24224\n  maxDuration: 30m\n"
	if err := util.UnmarshalYamlString(yml, cfg); err != nil {
		panic(err)
	}
	return cfg.NewChunkMaker(logger.Root(), c.Tag), cfg
}

func run(c Case) vh.Result {
	res := vh.Result{}
	noise = c.Noise
	defer func() { noise = false }()
	maxBytes, maxRecords := c.MaxBytes, c.MaxRecords
	if c.Mode == "Datadog" {
		maxBytes, maxRecords = ddMaxBytes, ddMaxRecords
	} else {
		mb := c.MaxBytes
		if mb == 0 {
			mb = prodForwardMaxBytes
			maxBytes = prodForwardMaxBytes
		}
		oldB, oldR := fluentdforward.SetChunkLimitsForVerif(mb, c.MaxRecords)
		defer fluentdforward.SetChunkLimitsForVerif(oldB, oldR)
	}
	maker, cfg := newMaker(c)

	var written [][]byte // what was written, in order
	var chunks []*base.LogChunk
	scratch := make([]byte, 0, 1024) // reused like the serializer's buffer
	flushedPartialThenWrote, rolledByBytes, rolledByRecords := false, false, false
	pendingRecords, pendingBytes := 0, 0
	lastWasPartialFlush := false
	for i, op := range c.Ops {
		if op.Flush {
			ch := maker.FlushBuffer()
			if pendingRecords == 0 && ch != nil {
				res.Violation = vh.Fail("chunk:flush-of-nothing", "op %d: FlushBuffer with nothing buffered returned a chunk %s", i, ch.ID)
				return res
			}
			if pendingRecords > 0 && ch == nil {
				res.Violation = vh.Fail("chunk:flush-lost", "op %d: FlushBuffer with %d records buffered returned nil", i, pendingRecords)
				return res
			}
			if ch != nil {
				chunks = append(chunks, ch)
				lastWasPartialFlush = true
			}
			pendingRecords, pendingBytes = 0, 0
			continue
		}
		idx := len(written)
		var stream []byte
		if c.Mode == "Datadog" {
			stream, _ = json.Marshal(map[string]string{"i": strconv.Itoa(idx), "m": string(payload(idx, op.Size))})
		} else {
			stream = vh.EncodeSimpleEvent(uint32(1600000000+idx), uint32(idx), strconv.Itoa(idx), payload(idx, op.Size))
		}
		written = append(written, stream)
		scratch = append(scratch[:0], stream...)
		ch := maker.WriteStream(base.LogStream(scratch))
		for k := range scratch { // the caller's buffer is reused for the next record
			scratch[k] = '#'
		}
		if ch != nil {
			chunks = append(chunks, ch)
			if maxRecords > 0 && pendingRecords >= maxRecords {
				rolledByRecords = true
			} else {
				rolledByBytes = true
			}
			pendingRecords, pendingBytes = 0, 0
		}
		if lastWasPartialFlush {
			flushedPartialThenWrote = true
			lastWasPartialFlush = false
		}
		pendingRecords++
		pendingBytes += len(stream)
	}
	if ch := maker.FlushBuffer(); ch != nil {
		chunks = append(chunks, ch)
	} else if pendingRecords > 0 {
		res.Violation = vh.Fail("chunk:flush-lost", "final FlushBuffer with %d records buffered returned nil", pendingRecords)
		return res
	}
	if ch := maker.FlushBuffer(); ch != nil {
		res.Violation = vh.Fail("chunk:flush-of-nothing", "second final FlushBuffer returned a chunk")
		return res
	}
	_ = pendingBytes

	res.NonTrivial = rolledByBytes || rolledByRecords || flushedPartialThenWrote
	if rolledByBytes {
		res.Classes = append(res.Classes, "roll-over-by-bytes")
	}
	if rolledByRecords {
		res.Classes = append(res.Classes, "roll-over-by-records")
	}
	if flushedPartialThenWrote {
		res.Classes = append(res.Classes, "partial-flush-then-more-writes")
	}
	res.Classes = append(res.Classes, "mode-"+c.Mode)
	if len(c.TagRaw) > 0 && c.Mode != "Datadog" && !utf8.Valid(c.TagRaw) {
		res.Classes = append(res.Classes, "tag-not-valid-utf8")
	}
	if c.Mode != "Datadog" && c.MaxBytes == 0 {
		res.Classes = append(res.Classes, "production-limits")
	}
	if c.Noise {
		res.Classes = append(res.Classes, "chunk-beyond-1MiB-between-small-ones")
	}

	// decode every chunk
	var got [][]byte
	prevID := ""
	seen := map[string]bool{}
	for ci, ch := range chunks {
		if ch.Saved {
			res.Violation = vh.Fail("chunk:saved-flag", "chunk %d is marked saved", ci)
			return res
		}
		if !cfg.MatchChunkID(ch.ID) {
			res.Violation = vh.Fail("chunk:id-not-matched", "chunk ID %q is not accepted by MatchChunkID", ch.ID)
			return res
		}
		if seen[ch.ID] {
			res.Violation = vh.Fail("chunk:id-duplicate", "chunk ID %q used twice", ch.ID)
			return res
		}
		seen[ch.ID] = true
		if prevID != "" && !(prevID < ch.ID) {
			res.Violation = vh.Fail("chunk:id-order", "chunk ID %q after %q is not increasing", ch.ID, prevID)
			return res
		}
		prevID = ch.ID
		var entries [][]byte
		if c.Mode == "Datadog" {
			zr, err := gzip.NewReader(bytes.NewReader(ch.Data))
			if err != nil {
				res.Violation = vh.Fail("chunk:dd-not-gzip", "chunk %d: %v", ci, err)
				return res
			}
			raw, err := io.ReadAll(zr)
			if err != nil {
				res.Violation = vh.Fail("chunk:dd-not-gzip", "chunk %d: %v", ci, err)
				return res
			}
			var arr []json.RawMessage
			if err := json.Unmarshal(raw, &arr); err != nil {
				res.Violation = vh.Fail("chunk:dd-not-json-array", "chunk %d: %v (%.80q)", ci, err, raw)
				return res
			}
			for _, e := range arr {
				entries = append(entries, []byte(e))
			}
			if len(raw) > maxBytes && len(arr) > 1 {
				res.Violation = vh.Fail("chunk:over-byte-limit", "datadog chunk %d: %d bytes uncompressed with %d records (limit %d)", ci, len(raw), len(arr), maxBytes)
				return res
			}
		} else {
			msg, err := vh.DecodeForwardMessage(ch.Data)
			if err != nil {
				res.Violation = vh.Fail("chunk:malformed", "chunk %d (%s): %v", ci, ch.ID, err)
				return res
			}
			if msg.Mode != c.Mode {
				res.Violation = vh.Fail("chunk:wrong-mode", "chunk %d is %s, configured %s", ci, msg.Mode, c.Mode)
				return res
			}
			wantTag := c.Tag
			if len(c.TagRaw) > 0 {
				wantTag = string(c.TagRaw)
			}
			if msg.Tag != wantTag {
				res.Violation = vh.Fail("chunk:tag", "chunk %d tag %q want %q", ci, msg.Tag, wantTag)
				return res
			}
			if !msg.HasChunk || msg.OptChunk != ch.ID {
				res.Violation = vh.Fail("chunk:option-chunk", "chunk %d option.chunk %q != ID %q", ci, msg.OptChunk, ch.ID)
				return res
			}
			if !msg.HasSize || int(msg.OptSize) != len(msg.RawEntries) {
				res.Violation = vh.Fail("chunk:option-size", "chunk %d option.size %d but %d entries", ci, msg.OptSize, len(msg.RawEntries))
				return res
			}
			entries = msg.RawEntries
			total := 0
			for _, e := range entries {
				total += len(e)
			}
			if total > maxBytes && len(entries) > 1 {
				res.Violation = vh.Fail("chunk:over-byte-limit", "chunk %d: %d bytes of entries in %d records (limit %d)", ci, total, len(entries), maxBytes)
				return res
			}
		}
		if len(entries) == 0 {
			res.Violation = vh.Fail("chunk:empty", "chunk %d (%s) has no records", ci, ch.ID)
			return res
		}
		if maxRecords > 0 && len(entries) > maxRecords {
			res.Violation = vh.Fail("chunk:over-record-limit", "chunk %d: %d records (limit %d)", ci, len(entries), maxRecords)
			return res
		}
		got = append(got, entries...)
	}
	if len(got) != len(written) {
		res.Violation = vh.Fail("chunk:record-count", "wrote %d records, chunks contain %d", len(written), len(got))
		return res
	}
	for i := range written {
		if !bytes.Equal(got[i], written[i]) {
			res.Violation = vh.Fail("chunk:record-content", "record %d differs: got %.60q want %.60q", i, got[i], written[i])
			return res
		}
	}
	return res
}

func gen(t *rapid.T) Case {
	var c Case
	c.Mode = rapid.SampledFrom([]string{"Forward", "PackedForward", "CompressedPackedForward", "Datadog"}).Draw(t, "mode")
	c.Tag = rapid.SampledFrom([]string{"development.app", "t", "", "tag with space", "a-very-long-tag-beyond-thirty-one-bytes-xxxxxxxxxxxx", "tägß"}).Draw(t, "tag")
	if c.Mode != "Datadog" && rapid.IntRange(0, 3).Draw(t, "rawTag") == 0 {
		c.TagRaw = rapid.OneOf(rapid.SampledFrom([][]byte{[]byte("caf\xe9"), {0xff}, []byte("app.a\xc3"), []byte("app\x00x"), []byte("t.\xf0\x9f\x98"), []byte("exactly-31-bytes-with-a-bad-\xfe-x"), []byte("exactly-32-bytes-with-a-bad-\xfe-xy")}), rapid.SliceOfN(rapid.Byte(), 1, 40)).Draw(t, "tagRaw")
	}
	unit := 100
	nops := rapid.IntRange(1, 40).Draw(t, "nops")
	if c.Mode == "Datadog" {
		kind := rapid.IntRange(0, 9).Draw(t, "ddKind")
		switch {
		case kind == 0: // reach the 1000-record limit
			nops = rapid.IntRange(990, 2100).Draw(t, "ddN")
			unit = 20
		case kind == 1: // reach the 5 MB limit
			nops = rapid.IntRange(8, 30).Draw(t, "ddN")
			unit = 600000
		}
	} else if rapid.IntRange(0, 24).Draw(t, "bigThenSmall") == 0 {
		// a chunk larger than the 1 MiB initial capacity of the encoder's buffers, between small ones
		c.Noise = true
		c.MaxBytes = rapid.SampledFrom([]int{0, 3 << 20}).Draw(t, "bigLimit")
		for i := rapid.IntRange(0, 3).Draw(t, "pre"); i > 0; i-- {
			c.Ops = append(c.Ops, Op{Size: rapid.IntRange(0, 300).Draw(t, "small")})
		}
		c.Ops = append(c.Ops, Op{Flush: rapid.Bool().Draw(t, "flushBefore")})
		for i := rapid.IntRange(3, 8).Draw(t, "nbig"); i > 0; i-- {
			c.Ops = append(c.Ops, Op{Size: rapid.IntRange(150000, 600000).Draw(t, "bigSize")})
		}
		c.Ops = append(c.Ops, Op{Flush: true})
		for i := rapid.IntRange(1, 4).Draw(t, "post"); i > 0; i-- {
			c.Ops = append(c.Ops, Op{Size: rapid.IntRange(0, 300).Draw(t, "small")}, Op{Flush: rapid.Bool().Draw(t, "flushAfter")})
		}
		c.Ops = append(c.Ops, Op{Flush: true})
		return c
	} else {
		prod := vh.Tier == "thorough" && rapid.IntRange(0, 9).Draw(t, "prod") == 7
		if prod {
			nops = rapid.IntRange(6, 24).Draw(t, "prodN")
			unit = 1200000
		} else {
			c.MaxBytes = rapid.SampledFrom([]int{64, 200, 1000, 5000}).Draw(t, "maxBytes")
			c.MaxRecords = rapid.SampledFrom([]int{0, 0, 1, 2, 3, 10}).Draw(t, "maxRecords")
			unit = c.MaxBytes / 3
		}
	}
	for i := 0; i < nops; i++ {
		k := rapid.IntRange(0, 9).Draw(t, "opKind")
		switch {
		case k == 0:
			c.Ops = append(c.Ops, Op{Flush: true})
		case k <= 5:
			c.Ops = append(c.Ops, Op{Size: rapid.IntRange(0, unit).Draw(t, "size")})
		case k <= 7 && c.MaxBytes > 0: // near the byte limit exactly (entry overhead is 17-21 bytes)
			c.Ops = append(c.Ops, Op{Size: max(0, c.MaxBytes-rapid.IntRange(0, 40).Draw(t, "near"))})
		case k == 8:
			c.Ops = append(c.Ops, Op{Size: unit * rapid.IntRange(2, 4).Draw(t, "big")})
		default:
			c.Ops = append(c.Ops, Op{Size: rapid.IntRange(0, 8).Draw(t, "tiny")})
		}
	}
	return c
}

// enumBoundaries: for each Forward mode and limit, two records whose sizes sum to limit-2..limit+2, and record limits 1..4 with 0..6 records.
func enumBoundaries(yield func(Case) bool) {
	for _, mode := range []string{"Forward", "PackedForward", "CompressedPackedForward"} {
		// two small chunks, one of about 2 MiB (beyond the encoder's initial buffer capacity), three small ones
		big := Case{Mode: mode, Tag: "t.big", Noise: true, Ops: []Op{{Size: 10}, {Flush: true}, {Size: 20}, {Flush: true}}}
		for i := 0; i < 5; i++ {
			big.Ops = append(big.Ops, Op{Size: 420000})
		}
		big.Ops = append(big.Ops, Op{Flush: true}, Op{Size: 30}, Op{Flush: true}, Op{Size: 40}, Op{Size: 50}, Op{Flush: true}, Op{Size: 60}, Op{Flush: true})
		if !yield(big) {
			return
		}
		for _, limit := range []int{100, 300} {
			for first := 0; first <= 60; first += 7 {
				for d := -3; d <= 3; d++ {
					// entry size = 17 + digits + payload (+ up to 2 bytes of str header); sizes chosen so that entry1+entry2 = limit+d
					e1 := len(vh.EncodeSimpleEvent(0, 0, "0", payload(0, first)))
					rest := limit + d - e1
					// payload size whose encoded entry (index "1") is exactly `rest` bytes long
					p2 := -1
					for cand := max(0, rest-30); cand <= rest; cand++ {
						if len(vh.EncodeSimpleEvent(0, 0, "1", payload(1, cand))) == rest {
							p2 = cand
							break
						}
					}
					if p2 < 0 {
						continue
					}
					c := Case{Mode: mode, Tag: "t.x", MaxBytes: limit, Ops: []Op{{Size: first}, {Size: p2}, {Size: 1}}}
					if !yield(c) {
						return
					}
				}
			}
		}
		for maxRec := 1; maxRec <= 4; maxRec++ {
			for n := 0; n <= 9; n++ {
				c := Case{Mode: mode, Tag: "t.y", MaxBytes: 100000, MaxRecords: maxRec}
				for i := 0; i < n; i++ {
					c.Ops = append(c.Ops, Op{Size: i})
					if i == 4 {
						c.Ops = append(c.Ops, Op{Flush: true}, Op{Flush: true})
					}
				}
				if !yield(c) {
					return
				}
			}
		}
	}
	// datadog: bodies of exactly limit-3 .. limit+3 bytes (the limits are production constants), with 2 and 5 records
	for _, n := range []int{2, 5} {
		for d := -3; d <= 3; d++ {
			// record stream = {"i":"<idx>","m":"<payload>"}; body = '[' + records + (n-1) commas + ']'
			total := ddMaxBytes + d
			fixed := 2 + (n - 1)
			each := (total - fixed) / n
			c := Case{Mode: "Datadog", Tag: "dd"}
			used := fixed
			for i := 0; i < n; i++ {
				size := each
				if i == n-1 {
					size = total - used
				}
				empty, _ := json.Marshal(map[string]string{"i": strconv.Itoa(i), "m": ""})
				c.Ops = append(c.Ops, Op{Size: size - len(empty)})
				used += size
			}
			c.Ops = append(c.Ops, Op{Size: 10})
			if !yield(c) {
				return
			}
		}
	}
	// datadog: exactly around 1000 records
	for _, n := range []int{999, 1000, 1001, 2000, 2001} {
		c := Case{Mode: "Datadog", Tag: "dd"}
		for i := 0; i < n; i++ {
			c.Ops = append(c.Ops, Op{Size: 3})
		}
		if !yield(c) {
			return
		}
	}
}

func TestC11Chunks(t *testing.T) {
	vh.Run(t, vh.Spec[Case]{
		Name: "chunks", Gen: gen, Run: run, Quick: 4000, Thorough: 30000, Enum: enumBoundaries, EnumOnlyShard0: true,
		Rule: "write/flush sequences through Config.NewChunkMaker for Forward, PackedForward, CompressedPackedForward (limits 64..5000 B and 0..10 records via hook H3; production 7 MiB in thorough) and Datadog (production 1000 records / 5 MB); enumerated: pairs of records summing to limit-3..limit+3, record limits 1..4 x 0..9 records, Datadog 999..2001 records; oracle = independent Forward/gzip+JSON decoders: tag, option.chunk == ID, IDs unique and increasing, option.size == entries, concatenation == written sequence byte for byte, limits respected unless a single record; non-trivial = a roll-over by bytes or records, or a partial flush followed by more writes",
	})
}

var _ = fmt.Sprintf
