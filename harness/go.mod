module verifharness

go 1.23

toolchain go1.23.5

require (
	github.com/prometheus/client_golang v1.19.1
	github.com/prometheus/client_model v0.6.1
	github.com/relex/fluentlib v0.0.0-20240516105411-5529b575f355
	github.com/relex/gotils v1.1.1
	github.com/relex/slog-agent v0.0.0
	gopkg.in/yaml.v3 v3.0.1
	pgregory.net/rapid v1.3.0
)

require (
	github.com/beorn7/perks v1.0.1 // indirect
	github.com/c2h5oh/datasize v0.0.0-20231215233829-aa82cc1e6500 // indirect
	github.com/cespare/xxhash/v2 v2.3.0 // indirect
	github.com/gobwas/glob v0.2.3 // indirect
	github.com/klauspost/compress v1.17.9 // indirect
	github.com/munnerz/goautoneg v0.0.0-20191010083416-a7dc8b61c822 // indirect
	github.com/pkg/xattr v0.4.9 // indirect
	github.com/prometheus/common v0.55.0 // indirect
	github.com/prometheus/procfs v0.15.1 // indirect
	github.com/puzpuzpuz/xsync v1.5.2 // indirect
	github.com/samber/lo v1.39.0 // indirect
	github.com/sirupsen/logrus v1.9.3 // indirect
	github.com/vmihailenco/msgpack/v4 v4.3.13 // indirect
	github.com/vmihailenco/tagparser v0.1.2 // indirect
	golang.org/x/exp v0.0.0-20240613232115-7f521ea00fb8 // indirect
	golang.org/x/sys v0.21.0 // indirect
	golang.org/x/term v0.21.0 // indirect
	google.golang.org/protobuf v1.34.2 // indirect
)

replace github.com/relex/slog-agent => /repo
