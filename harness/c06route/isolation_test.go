package c06route

import (
	"testing"

	"pgregory.net/rapid"

	"verifharness/vh"
)

// C12 through the orchestrator: the tag and the queue ID that accompany every chunk of a key set are derived from the
// record that opened the key set. That record is released and its pooled backing buffer is re-used by later records:
// no byte of those later records may show up in the tag/ID (the output of the first key set's records).
// Same engine as the routing check, restricted to the pooled mode (every record built like the parser builds it,
// released by the pipeline, buffers re-used at once).
func genPooled(t *rapid.T) Case {
	c := gen(t)
	c.Pooled = true
	c.Dirs = false
	// tuples whose comma-joined forms coincide share a queue ID whatever the buffers do (a routing matter, C06's known
	// finding): keep them out by construction, so that every ID collision seen here comes from re-used bytes
	for _, r := range c.Recs {
		for _, v := range r.Tuple {
			for i := range v {
				if v[i] == ',' {
					v[i] = ';'
				}
			}
		}
	}
	return c
}

func runPooled(c Case) vh.Result {
	res := run(c)
	// non-trivial here = at least two records with different tuples (a buffer is re-used with other content)
	first := ""
	res.NonTrivial = false
	for _, r := range c.Recs {
		k := canon(r.Tuple)
		if first == "" {
			first = k
		}
		if k != first {
			res.NonTrivial = true
		}
	}
	return res
}

func TestPooledIsolation(t *testing.T) {
	vh.Run(t, vh.Spec[Case]{
		Name: "orchestrator-isolation", Gen: genPooled, Run: runPooled, Quick: 1200, Thorough: 20000,
		Rule: "the routing engine in its pooled mode only: 1-20 records over 1-6 key tuples (1-3 key fields; tag templates incl. the single-variable ones $k0 / ${k0}), every record built like the parser builds it (fields are substrings of a pooled backing buffer, pooling threshold lowered to 0), handed to the real obykeyset orchestrator, released by the pipeline and its buffer re-used by the next record; oracle = at the end every pipeline's tag equals the reference expansion of the key tuple whose records it received, one pipeline per tuple, queue IDs distinct (i.e. nothing of a later record has appeared in the tag / ID under which an earlier key set's chunks are sent); non-trivial = records of at least two different tuples",
	})
}
