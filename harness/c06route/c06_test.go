// C06 — routing, queueing and tagging follow exactly the record's own key fields.
package c06route

import (
	"fmt"
	"os"
	"path/filepath"
	"sort"
	"runtime"
	"strings"
	"sync"
	"sync/atomic"
	"testing"

	"github.com/relex/gotils/logger"
	"github.com/relex/gotils/promexporter/promreg"
	"github.com/relex/slog-agent/base"
	"github.com/relex/slog-agent/buffer/hybridbuffer"
	"github.com/relex/slog-agent/defs"
	"github.com/relex/slog-agent/orchestrate/obykeyset"
	"github.com/relex/slog-agent/util"
	"pgregory.net/rapid"

	"verifharness/vh"
)

func init() {
	vh.QuietLogs(logger.FatalLevel)
	defs.IntermediateChannelTimeout = 5e9
}

type Rec struct {
	Conn  int      `json:"conn"`
	Tuple [][]byte `json:"tuple"`
}

type Case struct {
	NKeys    int    `json:"nkeys"`
	Template string `json:"template"` // tag template over k0..k{n-1}
	Conns    int    `json:"conns"`
	Recs     []Rec  `json:"recs"`
	Dirs     bool   `json:"dirs"` // also create the queue directories (layer 2)
	Pooled   bool   `json:"pooled,omitempty"` // records are built like the parser does: fields are substrings of a pooled backing buffer that is
	// recycled as soon as the pipeline has released the record (the pooling threshold, a defs variable, is lowered so that
	// short records are pooled too); every record is flushed to its pipeline and released before the next one is built
}

// reference expansion of the tag template ($kN, ${kN}, ${kN[a:b]}) written for the harness
func refExpand(tmpl string, vals []string) string {
	var out strings.Builder
	for i := 0; i < len(tmpl); {
		if tmpl[i] != '$' {
			out.WriteByte(tmpl[i])
			i++
			continue
		}
		i++
		if tmpl[i] == '{' {
			end := strings.IndexByte(tmpl[i:], '}') + i
			expr := tmpl[i+1 : end]
			i = end + 1
			name := expr
			slice := ""
			if b := strings.IndexByte(expr, '['); b >= 0 {
				name, slice = expr[:b], expr[b+1:len(expr)-1]
			}
			v := vals[int(name[1]-'0')]
			if slice != "" {
				parts := strings.SplitN(slice, ":", 2)
				start, end := 0, len(v)
				if parts[0] != "" {
					fmt.Sscanf(parts[0], "%d", &start)
				}
				if parts[1] != "" {
					fmt.Sscanf(parts[1], "%d", &end)
				}
				if start < 0 {
					start = max(0, start+len(v))
				}
				if end < 0 {
					end += len(v)
				}
				end = min(end, len(v))
				if end < 0 || start >= end {
					v = ""
				} else {
					v = v[start:end]
				}
			}
			out.WriteString(v)
			continue
		}
		j := i
		for j < len(tmpl) && (tmpl[j] == '_' || tmpl[j] >= '0' && tmpl[j] <= '9' || tmpl[j] >= 'a' && tmpl[j] <= 'z' || tmpl[j] >= 'A' && tmpl[j] <= 'Z') {
			j++
		}
		out.WriteString(vals[int(tmpl[i+1]-'0')])
		i = j
	}
	return out.String()
}

type pipeRec struct {
	bufferID, tag string
	idAtStart, tagAtStart string // copies taken when the pipeline was started
	tuples        []string // canonical tuple of every record received
}

func canon(t [][]byte) string {
	var b strings.Builder
	for _, v := range t {
		fmt.Fprintf(&b, "%d:%s|", len(v), v)
	}
	return b.String()
}

func hasComma(t [][]byte) bool {
	for _, v := range t {
		if strings.Contains(string(v), ",") {
			return true
		}
	}
	return false
}

func run(c Case) vh.Result {
	res := vh.Result{}
	names := []string{"k0", "k1", "k2"}[:c.NKeys]
	schema := base.MustNewLogSchema(append(append([]string{}, names...), "log"))
	alloc := base.NewLogAllocator(schema, 1)
	mf := promreg.NewMetricFactory("c06_", nil, nil)

	var mu sync.Mutex
	var processed atomic.Int64
	var pipes []*pipeRec
	var wg sync.WaitGroup
	starter := func(_ logger.Logger, _ promreg.MetricCreator, input <-chan []*base.LogRecord, bufferID string, outputTag string, onStopped func()) {
		p := &pipeRec{bufferID: bufferID, tag: outputTag, idAtStart: strings.Clone(bufferID), tagAtStart: strings.Clone(outputTag)}
		mu.Lock()
		pipes = append(pipes, p)
		mu.Unlock()
		wg.Add(1)
		go func() {
			defer wg.Done()
			for batch := range input {
				for _, r := range batch {
					t := make([][]byte, c.NKeys)
					for i := range t {
						t[i] = []byte(r.Fields[i])
					}
					p.tuples = append(p.tuples, canon(t))
					if c.Pooled {
						alloc.Release(r) // what the real pipeline does when it is done with a record
					}
					processed.Add(1)
				}
			}
			onStopped()
		}()
	}
	orch := obykeyset.NewOrchestrator(logger.Root(), schema, names, c.Template, mf, starter, nil)
	sinks := make([]base.BufferReceiverSink, c.Conns)
	for i := range sinks {
		sinks[i] = orch.NewSink(fmt.Sprintf("client%d", i), base.ClientNumber(i+1))
	}
	distinct := map[string][][]byte{}
	oldPool, oldFlush := defs.InputLogMinRecordBytesToPool, defs.IntermediateFlushInterval
	defer func() { defs.InputLogMinRecordBytesToPool, defs.IntermediateFlushInterval = oldPool, oldFlush }()
	if c.Pooled {
		defs.InputLogMinRecordBytesToPool = 0
		defs.IntermediateFlushInterval = 0
	}
	for n, r := range c.Recs {
		distinct[canon(r.Tuple)] = r.Tuple
		if !c.Pooled {
			rec, _ := alloc.NewRecord(nil)
			for i, v := range r.Tuple {
				rec.Fields[i] = string(v) // fresh copy per record
			}
			rec.Fields[c.NKeys] = "msg"
			sinks[r.Conn].Accept([]*base.LogRecord{rec})
			continue
		}
		// like the parser: one raw input, copied into a pooled buffer, fields are substrings of that copy
		var raw []byte
		for _, v := range r.Tuple {
			raw = append(raw, v...)
		}
		raw = append(raw, "msg-and-some-padding-so-that-short-tuples-share-a-pool-size-class............"...)
		rec, str := alloc.NewRecord(raw)
		off := 0
		for i, v := range r.Tuple {
			rec.Fields[i] = str[off : off+len(v)]
			off += len(v)
		}
		rec.Fields[c.NKeys] = str[off:]
		sinks[r.Conn].Accept([]*base.LogRecord{rec})
		sinks[r.Conn].Tick() // flush interval 0: hand the record to its pipeline now
		for spin := 0; processed.Load() < int64(n+1) && spin < 2000000; spin++ {
			runtime.Gosched()
		}
	}
	for _, s := range sinks {
		s.Close()
	}
	orch.Shutdown()
	wg.Wait()

	// classes
	concatSeen := map[string]string{}
	collision, sep, commaCollision := false, false, false
	joinSeen := map[string]string{}
	for k, t := range distinct {
		var cc, jj []string
		for _, v := range t {
			cc = append(cc, string(v))
			jj = append(jj, string(v))
			if len(v) == 0 || strings.ContainsAny(string(v), ",/\x00. ") {
				sep = true
			}
		}
		key := strings.Join(cc, "")
		if prev, ok := concatSeen[key]; ok && prev != k {
			collision = true
		}
		concatSeen[key] = k
		jk := strings.Join(jj, ",")
		if prev, ok := joinSeen[jk]; ok && prev != k {
			commaCollision = true
		}
		joinSeen[jk] = k
	}
	res.NonTrivial = collision || sep
	if collision {
		res.Classes = append(res.Classes, "tuples-with-equal-concatenation")
	}
	if sep {
		res.Classes = append(res.Classes, "separator-or-empty-value")
	}
	if commaCollision {
		res.Classes = append(res.Classes, "tuples-with-equal-comma-join")
	}
	res.Classes = append(res.Classes, fmt.Sprintf("keys-%d", c.NKeys))
	if c.Pooled {
		res.Classes = append(res.Classes, "fields-alias-recycled-pooled-buffers")
	}

	// oracle
	total := 0
	seenTuple := map[string]*pipeRec{}
	for _, p := range pipes {
		total += len(p.tuples)
		if p.tag != p.tagAtStart || p.bufferID != p.idAtStart {
			res.Violation = vh.Fail("route:tag-or-id-changed-later", "a pipeline was started with tag %q and queue ID %q; after later records were processed the same strings read %q and %q", p.tagAtStart, p.idAtStart, p.tag, p.bufferID)
			return res
		}
		own := ""
		for _, t := range p.tuples {
			if own == "" {
				own = t
			}
			if t != own {
				res.Violation = vh.Fail("route:merged-pipeline", "pipeline id=%q tag=%q received records of different key tuples: %s and %s", p.bufferID, p.tag, own, t)
				return res
			}
		}
		if own == "" {
			continue
		}
		if prev, ok := seenTuple[own]; ok && prev != p {
			res.Violation = vh.Fail("route:split-pipeline", "tuple %s was routed to two pipelines (%q, %q)", own, prev.bufferID, p.bufferID)
			return res
		}
		seenTuple[own] = p
		tuple := distinct[own]
		vals := make([]string, len(tuple))
		for i, v := range tuple {
			vals[i] = string(v)
		}
		if want := refExpand(c.Template, vals); p.tag != want {
			res.Violation = vh.Fail("route:wrong-tag", "pipeline of tuple %s has tag %q, template %q gives %q", own, p.tag, c.Template, want)
			return res
		}
	}
	if total != len(c.Recs) {
		res.Violation = vh.Fail("route:record-lost", "%d records sent, %d received by pipelines", len(c.Recs), total)
		return res
	}
	if len(seenTuple) != len(distinct) {
		res.Violation = vh.Fail("route:pipeline-count", "%d distinct tuples but %d pipelines with records", len(distinct), len(seenTuple))
		return res
	}
	// queue identity: buffer IDs and queue directories must be injective over tuples
	ids := map[string]string{}
	for own, p := range seenTuple {
		if prev, ok := ids[p.bufferID]; ok {
			key := "route:buffer-id-collision"
			if hasComma(distinct[own]) || hasComma(distinct[prev]) {
				key = "route:buffer-id-comma-collision"
			}
			if f := res.KnownOr(key, "tuples %s and %s share the queue/buffer ID %q", prev, own, p.bufferID); f != nil {
				res.Violation = f
				return res
			}
			continue
		}
		ids[p.bufferID] = own
	}
	if c.Dirs {
		root, err := os.MkdirTemp("", "verif-c06-")
		if err != nil {
			panic(err)
		}
		defer os.RemoveAll(root)
		cfg := &hybridbuffer.Config{}
		if err := util.UnmarshalYamlString("type: hybridBuffer\nrootPath: "+root+"\nmaxBufSize: 1MB\n", cfg); err != nil {
			panic(err)
		}
		match := func(id string) bool { return strings.HasSuffix(id, ".ff") }
		dirOf := map[string]string{}
		var idList []string
		for id := range ids {
			idList = append(idList, id)
		}
		sort.Strings(idList)
		for _, id := range idList {
			if len(id) > 200 || id == "" {
				continue // over-long directory names / the root directory itself: unusable-directory cases belong to C03 (empty single key: known P10 class)
			}
			before := listDirs(root)
			b := cfg.NewBufferer(logger.Root(), id, match, mf.AddOrGetPrefix("b_", []string{"id"}, []string{fmt.Sprintf("%x", id)}), false)
			b.Start()
			after := listDirs(root)
			var created []string
			for d := range after {
				if !before[d] {
					created = append(created, d)
				}
			}
			b.Destroy()
			b.Stopped().WaitForever()
			if len(created) != 1 {
				res.Violation = vh.Fail("route:queue-dir-not-distinct", "buffer ID %q: %d new directories created under the root (existing: %v)", id, len(created), keys(before))
				return res
			}
			dirOf[id] = created[0]
			if strings.ContainsAny(created[0], "/\x00") || created[0] == "." || created[0] == ".." {
				res.Violation = vh.Fail("route:queue-dir-escapes-root", "buffer ID %q -> directory %q", id, created[0])
				return res
			}
			idBytes, err := os.ReadFile(filepath.Join(root, created[0], ".id"))
			if err != nil || string(idBytes) != id {
				res.Violation = vh.Fail("route:id-file", "buffer ID %q: .id file holds %q (%v)", id, idBytes, err)
				return res
			}
			// leave one chunk so that the directory is listed at the next start
			_ = os.WriteFile(filepath.Join(root, created[0], "0000000000000000001-00000000.ff"), []byte("x"), 0o644)
		}
		listed := cfg.ListBufferIDs(logger.Root(), match, mf.AddOrGetPrefix("l_", nil, nil))
		sort.Strings(listed)
		var want []string
		for id := range dirOf {
			want = append(want, id)
		}
		sort.Strings(want)
		if strings.Join(listed, "\x01") != strings.Join(want, "\x01") {
			res.Violation = vh.Fail("route:list-buffer-ids", "ListBufferIDs returned %q, queues with chunks: %q", listed, want)
			return res
		}
	}
	return res
}

func listDirs(root string) map[string]bool {
	out := map[string]bool{}
	entries, _ := os.ReadDir(root)
	for _, e := range entries {
		if e.IsDir() {
			out[e.Name()] = true
		}
	}
	return out
}

func keys(m map[string]bool) []string {
	var l []string
	for k := range m {
		l = append(l, k)
	}
	sort.Strings(l)
	return l
}

var alphabet = []string{"", "a", "b", "ab", "bc", ",", "a,b", "/", ".", "..", "\x00", " "}

var templates = map[int][]string{
	1: {"t.$k0", "$k0", "${k0}", "x-${k0[:1]}-y", "static"},
	2: {"t.$k0", "$k0.$k1", "${k1}${k0}", "${k0[-1:]}.${k1[:2]}", "p-$k1"},
	3: {"t.$k0", "$k0.$k1.$k2", "${k2}-${k0[1:]}", "static.$k2"},
}

func genTuple(t *rapid.T, n int) [][]byte {
	tu := make([][]byte, n)
	for i := range tu {
		switch rapid.IntRange(0, 5).Draw(t, "vKind") {
		case 0, 1, 2:
			tu[i] = []byte(rapid.SampledFrom(alphabet).Draw(t, "v"))
		case 3:
			tu[i] = []byte(rapid.StringMatching(`[ab,:012]{0,4}`).Draw(t, "v"))
		case 4:
			tu[i] = rapid.SliceOfN(rapid.Byte(), 0, 12).Draw(t, "v")
		default:
			tu[i] = []byte(strings.Repeat(rapid.SampledFrom([]string{"x", "ab", "/"}).Draw(t, "u"), rapid.IntRange(1, 60).Draw(t, "rep")))
		}
	}
	return tu
}

func gen(t *rapid.T) Case {
	c := Case{NKeys: rapid.IntRange(1, 3).Draw(t, "nkeys"), Conns: rapid.IntRange(1, 3).Draw(t, "conns")}
	c.Template = rapid.SampledFrom(templates[c.NKeys]).Draw(t, "tmpl")
	c.Dirs = rapid.IntRange(0, 3).Draw(t, "dirs") == 0
	c.Pooled = rapid.Bool().Draw(t, "pooled")
	nt := rapid.IntRange(1, 6).Draw(t, "ntuples")
	var tuples [][][]byte
	for i := 0; i < nt; i++ {
		tu := genTuple(t, c.NKeys)
		tuples = append(tuples, tu)
		if c.NKeys >= 2 && rapid.IntRange(0, 2).Draw(t, "shift") == 0 {
			// a sibling tuple with the same concatenation: move the boundary between two fields
			j := rapid.IntRange(0, c.NKeys-2).Draw(t, "field")
			joined := append(append([]byte{}, tu[j]...), tu[j+1]...)
			cut := rapid.IntRange(0, len(joined)).Draw(t, "cut")
			sib := make([][]byte, c.NKeys)
			copy(sib, tu)
			sib[j], sib[j+1] = joined[:cut:cut], joined[cut:]
			tuples = append(tuples, sib)
		}
	}
	nr := rapid.IntRange(1, 20).Draw(t, "nrecs")
	for i := 0; i < nr; i++ {
		c.Recs = append(c.Recs, Rec{Conn: rapid.IntRange(0, c.Conns-1).Draw(t, "conn"), Tuple: rapid.SampledFrom(tuples).Draw(t, "tuple")})
	}
	return c
}

// enumPairs: all ordered pairs of tuples over the alphabet for 1 and 2 key fields (and a slice for 3), two records each.
func enumPairs(yield func(Case) bool) {
	var tuples1, tuples2 [][][]byte
	for _, a := range alphabet {
		tuples1 = append(tuples1, [][]byte{[]byte(a)})
		for _, b := range alphabet {
			tuples2 = append(tuples2, [][]byte{[]byte(a), []byte(b)})
		}
	}
	for _, x := range tuples1 {
		for _, y := range tuples1 {
			if !yield(Case{NKeys: 1, Template: "t.$k0", Conns: 1, Recs: []Rec{{0, x}, {0, y}, {0, x}}}) {
				return
			}
			if !yield(Case{NKeys: 1, Template: "$k0", Conns: 1, Recs: []Rec{{0, x}, {0, y}, {0, x}}, Pooled: true}) {
				return
			}
		}
	}
	for i, x := range tuples2 {
		for j, y := range tuples2 {
			if j <= i {
				continue
			}
			if !yield(Case{NKeys: 2, Template: []string{"$k0.$k1", "$k1", "${k0}"}[(i+j)%3], Conns: 2, Recs: []Rec{{0, x}, {1, y}, {1, x}, {0, y}}, Pooled: (i+j)%2 == 1}) {
				return
			}
		}
	}
	// 3 keys: all tuples whose concatenation is one of a few strings, together in one case
	for _, s := range []string{"abc", "a,b", "", "ab"} {
		var recs []Rec
		for i := 0; i <= len(s); i++ {
			for j := i; j <= len(s); j++ {
				recs = append(recs, Rec{0, [][]byte{[]byte(s[:i]), []byte(s[i:j]), []byte(s[j:])}})
			}
		}
		if !yield(Case{NKeys: 3, Template: "$k0.$k1.$k2", Conns: 1, Recs: recs, Dirs: true}) {
			return
		}
	}
	// queue directories for every 2-tuple of the alphabet at once
	var recs []Rec
	for _, x := range tuples2 {
		recs = append(recs, Rec{0, x})
	}
	yield(Case{NKeys: 2, Template: "t.$k0", Conns: 1, Recs: recs, Dirs: true})
}

func TestC06Route(t *testing.T) {
	vh.Run(t, vh.Spec[Case]{
		Name: "route", Gen: gen, Run: run, Quick: 1500, Thorough: 20000, Enum: enumPairs, EnumOnlyShard0: true,
		Rule: "key tuples over {'', a, b, ab, bc, ',', 'a,b', /, ., .., NUL, space} exhaustively (all pairs for 1 and 2 key fields, all 3-way splits of 4 strings) plus rapid tuples over arbitrary bytes with boundary-shifted siblings, 1-3 key fields, tag templates with $k, ${k}, ${k[a:b]}, 1-3 sinks; real obykeyset orchestrator with a recording pipeline starter, real hybridbuffer queue directories; oracle = one pipeline per distinct tuple, tag == reference expansion of the tuple, buffer IDs and directories injective, .id round-trips, ListBufferIDs lists exactly the queues with chunks; non-trivial = tuples with equal concatenation or a separator/empty value",
	})
}
