package c06route

// C06, concurrent pipeline creation: several connections meet the first record of different, not yet seen key sets at
// the same moment. Every pipeline must still be created with the tag and ID of exactly its own key tuple and receive
// only records of that tuple.

import (
	"fmt"
	"strings"
	"sync"
	"testing"

	"github.com/relex/gotils/logger"
	"github.com/relex/gotils/promexporter/promreg"
	"github.com/relex/slog-agent/base"
	"github.com/relex/slog-agent/orchestrate/obykeyset"
	"pgregory.net/rapid"

	"verifharness/vh"
)

type CCase struct {
	Sinks    int    `json:"sinks"`    // concurrent connections
	PerSink  int    `json:"perSink"`  // new key sets met by each connection
	Template string `json:"template"` // tag template over k0,k1
	Shared   int    `json:"shared"`   // of those, key sets that every connection sends too (creation races on the SAME key set)
}

func runConcurrent(c CCase) vh.Result {
	res := vh.Result{NonTrivial: c.Sinks > 1}
	names := []string{"k0", "k1"}
	schema := base.MustNewLogSchema([]string{"k0", "k1", "log"})
	mf := promreg.NewMetricFactory("c06c_", nil, nil)
	type pipe struct {
		id, tag string
		tuples  map[string]int
	}
	var mu sync.Mutex
	var pipes []*pipe
	var wg sync.WaitGroup
	starter := func(_ logger.Logger, _ promreg.MetricCreator, input <-chan []*base.LogRecord, bufferID string, outputTag string, onStopped func()) {
		p := &pipe{id: bufferID, tag: outputTag, tuples: map[string]int{}}
		mu.Lock()
		pipes = append(pipes, p)
		mu.Unlock()
		wg.Add(1)
		go func() {
			defer wg.Done()
			for batch := range input {
				for _, r := range batch {
					p.tuples[r.Fields[0]+"\x00"+r.Fields[1]]++
				}
			}
			onStopped()
		}()
	}
	orch := obykeyset.NewOrchestrator(logger.Root(), schema, names, c.Template, mf, starter, nil)
	start := make(chan struct{})
	var cw sync.WaitGroup
	sent := map[string]int{}
	var smu sync.Mutex
	for s := 0; s < c.Sinks; s++ {
		cw.Add(1)
		go func(s int) {
			defer cw.Done()
			sink := orch.NewSink(fmt.Sprintf("client%d", s), base.ClientNumber(s+1))
			alloc := base.NewLogAllocator(schema, 1)
			local := map[string]int{}
			<-start
			for k := 0; k < c.PerSink; k++ {
				k0, k1 := fmt.Sprintf("lvl%d", k%7), fmt.Sprintf("app-s%d-k%d", s, k)
				if k < c.Shared {
					k1 = fmt.Sprintf("app-shared-k%d", k) // every connection creates this one too
				}
				rec, _ := alloc.NewRecord(nil)
				rec.Fields[0], rec.Fields[1], rec.Fields[2] = k0, k1, "m"
				local[k0+"\x00"+k1]++
				sink.Accept([]*base.LogRecord{rec})
			}
			sink.Close()
			smu.Lock()
			for k, v := range local {
				sent[k] += v
			}
			smu.Unlock()
		}(s)
	}
	close(start)
	cw.Wait()
	orch.Shutdown()
	wg.Wait()
	seen := map[string]bool{}
	for _, p := range pipes {
		if len(p.tuples) != 1 {
			res.Violation = vh.Fail("route:merged-pipeline", "pipeline id=%q tag=%q received records of %d different key tuples", p.id, p.tag, len(p.tuples))
			return res
		}
		for tk, n := range p.tuples {
			parts := strings.SplitN(tk, "\x00", 2)
			if seen[tk] {
				res.Violation = vh.Fail("route:split-pipeline", "tuple (%s,%s) was routed to two pipelines", parts[0], parts[1])
				return res
			}
			seen[tk] = true
			if want := refExpand(c.Template, parts); p.tag != want {
				res.Violation = vh.Fail("route:wrong-tag", "pipeline of tuple (%s,%s), created while %d connections were creating pipelines concurrently, has tag %q; template %q gives %q", parts[0], parts[1], c.Sinks, p.tag, c.Template, want)
				return res
			}
			if want := parts[0] + "," + parts[1]; p.id != want {
				res.Violation = vh.Fail("route:wrong-id", "pipeline of tuple (%s,%s) has ID %q", parts[0], parts[1], p.id)
				return res
			}
			if n != sent[tk] {
				res.Violation = vh.Fail("route:record-lost", "tuple (%s,%s): %d records sent, %d received by its pipeline", parts[0], parts[1], sent[tk], n)
				return res
			}
		}
	}
	if len(seen) != len(sent) {
		res.Violation = vh.Fail("route:pipeline-count", "%d distinct tuples sent, %d pipelines with records", len(sent), len(seen))
		return res
	}
	res.Classes = append(res.Classes, fmt.Sprintf("sinks-%d", c.Sinks))
	if c.Shared > 0 {
		res.Classes = append(res.Classes, "same-key-set-created-by-several-connections")
	}
	return res
}

func genConcurrent(t *rapid.T) CCase {
	return CCase{Sinks: rapid.IntRange(2, 12).Draw(t, "sinks"), PerSink: rapid.IntRange(50, 400).Draw(t, "perSink"),
		Template: rapid.SampledFrom([]string{"$k0-$k1", "t.$k1", "$k1.$k0.x", "${k0}${k1}", "$k1"}).Draw(t, "tmpl"), Shared: rapid.SampledFrom([]int{0, 0, 5, 40}).Draw(t, "shared")}
}

func TestC06Concurrent(t *testing.T) {
	vh.Run(t, vh.Spec[CCase]{
		Name: "concurrent-creation", Gen: genConcurrent, Run: runConcurrent, Quick: 25, Thorough: 400, ShrinkSeconds: 10,
		Rule: "2-12 goroutines (connections) with sinks of one real byKeySet orchestrator start together and each sends the first records of 50-400 key sets nobody has seen before (some shared between all connections), multi-part and single-variable tag templates; recording pipeline starter; oracle = one pipeline per tuple, tag == reference expansion of its own tuple, ID == joined keys, all records received by their own pipeline; every case is non-trivial (the interleaving is whatever the scheduler gives; detection of a creation race is probabilistic per case)",
	})
}
