// C06 layer 3 — queued chunks found at start-up are reattached to the pipeline of the key set that produced them.
//
// Two generations of the real agent core (run.Loader -> obykeyset.Config.StartOrchestrator -> real pipelines, real
// hybrid buffers) on one buffer root. Generation 1 receives records of generated key tuples through a real orchestrator
// sink while the consumer of every output stalls, so that every chunk ends up as a file in its queue directory.
// Generation 2 starts on the same root with a recording consumer and, at first, no input at all.
package c06route

import (
	"fmt"
	"os"
	"path/filepath"
	"sort"
	"strings"
	"sync"
	"syscall"
	"testing"
	"time"

	"github.com/relex/gotils/channels"
	"github.com/relex/gotils/logger"
	"github.com/relex/slog-agent/base"
	"github.com/relex/slog-agent/defs"
	agentrun "github.com/relex/slog-agent/run"
	"pgregory.net/rapid"

	"verifharness/vh"
)

type RCase struct {
	NKeys    int        `json:"nkeys"`
	Template string     `json:"template"`
	Umask    int        `json:"umask"`    // process umask while generation 1 creates the queue directories
	Outputs  int        `json:"outputs"`  // 1 or 2 output/buffer pairs (separate roots)
	Asym     bool       `json:"asym,omitempty"` // two outputs only: the first output's upstream is healthy in generation 1 (its consumer takes and
	// confirms every chunk), only the second one stalls - the outputs' queue directories hold different backlogs at the restart
	Tuples   [][][]byte `json:"tuples"`   // distinct key tuples of generation 1
	PerTuple []int      `json:"perTuple"` // records per tuple in generation 1
	Again    []int      `json:"again"`    // generation 2, after start-up: one more record for Tuples[i] (index >= len(Tuples): a tuple not seen before)
	Fresh    [][]byte   `json:"fresh"`    // the tuple used for indexes >= len(Tuples)
	Foreign  bool       `json:"foreign,omitempty"` // before generation 2 the buffer roots get entries that are no queues (files, directories without / with an empty / unreadable .id, a dangling link)
}

// tooLongForDir: the queue directory of a key set is named after its (sanitised) joined ID plus '.' and 8 hash
// characters; beyond 255 bytes it cannot be created. Such a key set has no queue directory at all: its chunks cannot be
// persisted (that is C03's unusable-directory case) - and must not turn up in anybody else's directory either.
func tooLongForDir(tuple [][]byte) bool {
	n := len(tuple) - 1
	for _, v := range tuple {
		n += len(v)
	}
	return n+9 > 255
}

func restartConfig(c RCase, root string) string {
	var b strings.Builder
	b.WriteString("anchors: []\nschema:\n  fields: [facility, level, time, host, app, pid, source, extradata, log, k0, k1, k2]\n  maxFields: 14\n")
	b.WriteString("inputs:\n  - type: syslog\n    address: 127.0.0.1:0\n    levelMapping: [off, fatal, crit, error, warn, notice, info, debug]\n    extractions:\n      - type: extractHead\n        key: log\n        pattern: '\\[*\\] '\n        maxLen: 20\n        destKey: extradata\n")
	b.WriteString("orchestration:\n  type: byKeySet\n  keys: [" + strings.Join([]string{"k0", "k1", "k2"}[:c.NKeys], ", ") + "]\n  tag: '" + c.Template + "'\n")
	b.WriteString("metricKeys: [host]\ntransformations:\n  - type: addFields\n    fields:\n      source: s\noutputBufferPairs:\n")
	for i := 0; i < c.Outputs; i++ {
		b.WriteString(fmt.Sprintf("  - name: out%d\n    buffer:\n      type: hybridBuffer\n      rootPath: %s\n      maxBufSize: 100MB\n    output:\n      type: fluentdForward\n      serialization:\n        environmentFields: [host]\n        hiddenFields: [pid]\n      messageMode: Forward\n      upstream:\n        address: 127.0.0.1:1\n        tls: false\n        secret: \"\"\n        maxDuration: 30m\n",
			i, filepath.Join(root, fmt.Sprintf("out%d", i))))
	}
	return b.String()
}

// stallConsumer never takes a chunk: everything accepted by the buffer is saved to its queue directory at shutdown.
type stallConsumer struct {
	args    base.ChunkConsumerArgs
	stopped *channels.SignalAwaitable
	drain   chan struct{}      // closed by the test a moment after the shutdown began
	taken   func(data []byte) // called for chunks consumed in drain mode
}

// A queue without a directory (ID too long for a directory name) cannot save anything: its buffer waits at shutdown
// until the consumer has taken what is pending. So the consumer stalls only until the shutdown is under way, then takes
// whatever is still offered to it (for queues with a directory everything has been saved by then, or is counted here).
func (s *stallConsumer) Start() {
	go func() {
		defer s.stopped.Signal()
		defer s.args.OnFinished()
		select {
		case <-s.args.InputClosed.Channel():
			return
		case <-s.drain:
		}
		for {
			select {
			case ch, ok := <-s.args.InputChannel:
				if !ok {
					return
				}
				s.taken(append([]byte(nil), ch.Data...))
				s.args.OnChunkConsumed(ch)
			case <-s.args.InputClosed.Channel():
				return
			}
		}
	}()
}
func (s *stallConsumer) Stopped() channels.Awaitable { return s.stopped }

// instConsumer confirms and records every chunk, remembering which consumer instance (= pipeline x output) took it.
type instLog struct {
	mu        sync.Mutex
	instances int
	got       []gotChunk
}
type gotChunk struct {
	inst   int
	output string
	id     string
	data   []byte
}
type instConsumer struct {
	idx     int
	name    string
	args    base.ChunkConsumerArgs
	log     *instLog
	stopped *channels.SignalAwaitable
}

func (l *instLog) override(_ logger.Logger, name string, _ base.ChunkDecoder, args base.ChunkConsumerArgs) base.ChunkConsumer {
	l.mu.Lock()
	defer l.mu.Unlock()
	l.instances++
	return &instConsumer{idx: l.instances - 1, name: name, args: args, log: l, stopped: channels.NewSignalAwaitable()}
}
func (c *instConsumer) Start() {
	go func() {
		defer c.stopped.Signal()
		defer c.args.OnFinished()
		for {
			select {
			case chunk, ok := <-c.args.InputChannel:
				if !ok {
					return
				}
				c.log.mu.Lock()
				c.log.got = append(c.log.got, gotChunk{c.idx, c.name, chunk.ID, append([]byte(nil), chunk.Data...)})
				c.log.mu.Unlock()
				c.args.OnChunkConsumed(chunk)
			case <-c.args.InputClosed.Channel():
				return
			}
		}
	}()
}
func (c *instConsumer) Stopped() channels.Awaitable { return c.stopped }

type diskChunk struct {
	output, dir, file string
	data              []byte
	tag               string
	tuples            []string // canonical tuple of every record
}

func tupleOfEvent(fields map[string]string, n int) string {
	t := make([][]byte, n)
	for i := range t {
		t[i] = []byte(fields[fmt.Sprintf("k%d", i)])
	}
	return canon(t)
}

// scanQueues lists and decodes every chunk file below the output roots (the root itself is the queue of the empty ID).
func scanQueues(root string, outputs, nkeys int) ([]diskChunk, error) {
	var out []diskChunk
	for o := 0; o < outputs; o++ {
		oroot := filepath.Join(root, fmt.Sprintf("out%d", o))
		dirs := []string{""}
		entries, _ := os.ReadDir(oroot)
		for _, e := range entries {
			if e.IsDir() {
				dirs = append(dirs, e.Name())
			}
		}
		for _, d := range dirs {
			files, _ := os.ReadDir(filepath.Join(oroot, d))
			for _, f := range files {
				if f.IsDir() || !strings.HasSuffix(f.Name(), ".ff") {
					continue
				}
				data, err := os.ReadFile(filepath.Join(oroot, d, f.Name()))
				if err != nil {
					return nil, err
				}
				msg, err := vh.DecodeForwardMessage(data)
				if err != nil {
					return nil, fmt.Errorf("chunk file %s/%s does not decode: %v", d, f.Name(), err)
				}
				dc := diskChunk{output: fmt.Sprintf("out%d", o), dir: d, file: f.Name(), data: data, tag: msg.Tag}
				for _, ev := range msg.Events {
					dc.tuples = append(dc.tuples, tupleOfEvent(ev.Fields, nkeys))
				}
				out = append(out, dc)
			}
		}
	}
	return out, nil
}

func feed(ld *agentrun.Loader, sink base.BufferReceiverSink, nkeys int, tuple [][]byte, text string) {
	rec, _ := ld.PipelineArgs.Deallocator.NewRecord(nil)
	schema := ld.PipelineArgs.Schema
	for i, v := range tuple {
		loc := schema.MustCreateFieldLocator(fmt.Sprintf("k%d", i))
		loc.Set(rec.Fields, string(append([]byte(nil), v...)))
	}
	schema.MustCreateFieldLocator("log").Set(rec.Fields, text)
	schema.MustCreateFieldLocator("host").Set(rec.Fields, "h")
	rec.RawLength = len(text) + 10
	rec.Timestamp = time.Unix(1600000000, 0)
	sink.Accept([]*base.LogRecord{rec})
}

func runRestart(c RCase) vh.Result {
	res := vh.Result{}
	defs.IntermediateFlushInterval = 10 * time.Millisecond
	defs.IntermediateChannelTimeout = 300 * time.Millisecond // also bounds how long Destroy waits for a stalled consumer when a queue has no directory
	defs.BufferMaxNumChunksInMemory = 4
	root, err := os.MkdirTemp("", "verif-c06r-")
	if err != nil {
		panic(err)
	}
	defer os.RemoveAll(root)
	confPath := filepath.Join(root, "agent.yml")
	if err := os.WriteFile(confPath, []byte(restartConfig(c, root)), 0o644); err != nil {
		panic(err)
	}

	// ---- generation 1: everything ends up on disk
	old := syscall.Umask(c.Umask)
	ld1, err := agentrun.NewLoaderFromConfigFile(confPath, "c06r1_")
	if err != nil {
		syscall.Umask(old)
		panic("restart configuration rejected: " + err.Error())
	}
	drain := make(chan struct{})
	var takenMu sync.Mutex
	takenGen1 := map[string]map[string]int{} // output -> tuple -> records consumed by the draining consumers of generation 1
	ld1.PipelineArgs.NewConsumerOverride = func(_ logger.Logger, name string, _ base.ChunkDecoder, args base.ChunkConsumerArgs) base.ChunkConsumer {
		d := drain
		if c.Asym && c.Outputs == 2 && name == "out0" {
			d = make(chan struct{})
			close(d) // healthy from the start
		}
		return &stallConsumer{args: args, stopped: channels.NewSignalAwaitable(), drain: d, taken: func(data []byte) {
			msg, err := vh.DecodeForwardMessage(data)
			if err != nil {
				return
			}
			takenMu.Lock()
			defer takenMu.Unlock()
			if takenGen1[name] == nil {
				takenGen1[name] = map[string]int{}
			}
			for _, ev := range msg.Events {
				takenGen1[name][tupleOfEvent(ev.Fields, c.NKeys)]++
			}
		}}
	}
	orch1 := ld1.StartOrchestrator(logger.Root())
	sink1 := orch1.NewSink("gen1", 1)
	sent := map[string]int{}
	tupleByCanon := map[string][][]byte{}
	for i, tu := range c.Tuples {
		tupleByCanon[canon(tu)] = tu
		for k := 0; k < c.PerTuple[i]; k++ {
			feed(ld1, sink1, c.NKeys, tu, fmt.Sprintf("g1-t%d-r%d", i, k))
			sent[canon(tu)]++
		}
	}
	sink1.Close()
	if c.Asym && c.Outputs == 2 {
		time.Sleep(80 * time.Millisecond) // several flush intervals: the chunks exist and the healthy output has delivered them before the stop
	}
	shutdownDone := make(chan struct{})
	go func() { orch1.Shutdown(); close(shutdownDone) }()
	select {
	case <-shutdownDone:
	case <-time.After(100 * time.Millisecond):
	}
	close(drain)
	<-shutdownDone
	syscall.Umask(old)

	disk, err := scanQueues(root, c.Outputs, c.NKeys)
	if err != nil {
		res.Violation = vh.Fail("route:queued-chunk-unreadable", "%v", err)
		res.NonTrivial = true
		return res
	}
	// what generation 1 left: per output, directory -> tuples; every record must be there, under its own tag
	type qkey struct{ output, dir string }
	dirTuples := map[qkey]map[string]bool{}
	onDisk := map[string]map[string]int{} // output -> tuple -> records
	comma, emptyID, restrictive, sepVal := false, false, c.Umask&0o005 != 0, false
	for _, dc := range disk {
		k := qkey{dc.output, dc.dir}
		if dirTuples[k] == nil {
			dirTuples[k] = map[string]bool{}
		}
		if onDisk[dc.output] == nil {
			onDisk[dc.output] = map[string]int{}
		}
		for _, t := range dc.tuples {
			dirTuples[k][t] = true
			onDisk[dc.output][t]++
			tu, ok := tupleByCanon[t]
			if !ok {
				res.Violation = vh.Fail("route:queued-record-altered-keys", "chunk file %s/%s/%s holds a record with key tuple %s that was never sent", dc.output, dc.dir, dc.file, t)
				res.NonTrivial = true
				return res
			}
			vals := make([]string, len(tu))
			for i, v := range tu {
				vals[i] = string(v)
			}
			if want := refExpand(c.Template, vals); dc.tag != want {
				res.Violation = vh.Fail("route:wrong-tag", "queued chunk %s/%s/%s holds a record of tuple %s under tag %q, template %q gives %q", dc.output, dc.dir, dc.file, t, dc.tag, c.Template, want)
				res.NonTrivial = true
				return res
			}
		}
	}
	for _, tu := range c.Tuples {
		if hasComma(tu) {
			comma = true
		}
		if c.NKeys == 1 && len(tu[0]) == 0 {
			emptyID = true
		}
		for _, v := range tu {
			if len(v) == 0 || strings.ContainsAny(string(v), ",/\x00. \n") {
				sepVal = true
			}
		}
	}
	res.NonTrivial = true
	res.Classes = append(res.Classes, fmt.Sprintf("keys-%d", c.NKeys), fmt.Sprintf("outputs-%d", c.Outputs), fmt.Sprintf("umask-%03o", c.Umask))
	if c.Asym && c.Outputs == 2 {
		res.Classes = append(res.Classes, "backlog-only-in-the-second-output")
	}
	for _, tu := range c.Tuples {
		if tooLongForDir(tu) {
			res.Classes = append(res.Classes, "ID-too-long-for-a-directory-name")
			break
		}
	}
	if comma {
		res.Classes = append(res.Classes, "comma-in-key-value")
	}
	if emptyID {
		res.Classes = append(res.Classes, "single-empty-key(queue=root directory)")
	}
	if sepVal {
		res.Classes = append(res.Classes, "separator-or-empty-value")
	}
	if restrictive {
		res.Classes = append(res.Classes, "restrictive-umask")
	}
	for o := 0; o < c.Outputs; o++ {
		name := fmt.Sprintf("out%d", o)
		for t, n := range sent {
			n -= takenGen1[name][t] // consumed by generation 1's consumers after they stopped stalling
			if tooLongForDir(tupleByCanon[t]) {
				if onDisk[name][t] != 0 {
					res.Violation = vh.Fail("route:queue-dir-shared", "tuple %.80s... has an ID too long for a directory name, so it has no queue directory of its own, yet %d of its records are in queue files of %s: they sit in a directory that belongs to another key set (or to the root, the queue of the empty ID)", t, onDisk[name][t], name)
					return res
				}
				continue
			}
			if onDisk[name][t] != n {
				res.Violation = vh.Fail("route:queued-record-lost", "generation 1 (stalled consumer): tuple %s sent %d records, %d are in the queue files of %s", t, n, onDisk[name][t], name)
				return res
			}
		}
	}
	// queue directories must not be shared between tuples (comma: known finding of layers 1/2)
	knownSkipped := map[qkey]bool{}
	for k, ts := range dirTuples {
		anyComma := false
		for t := range ts {
			if hasComma(tupleByCanon[t]) {
				anyComma = true
			}
		}
		if len(ts) > 1 {
			key := "route:queue-dir-shared"
			if anyComma {
				key = "route:buffer-id-comma-collision"
			}
			var l []string
			for t := range ts {
				l = append(l, t)
			}
			sort.Strings(l)
			if f := res.KnownOr(key, "queue directory %s/%q holds chunks of %d different key tuples: %v", k.output, k.dir, len(ts), l); f != nil {
				res.Violation = f
				return res
			}
		}
		if anyComma {
			knownSkipped[k] = true
		}
	}

	// ---- entries in the buffer roots that are no queues of this agent: they must neither crash the start-up scan nor keep
	// it from reattaching the real queues
	if c.Foreign {
		for o := 0; o < c.Outputs; o++ {
			oroot := filepath.Join(root, fmt.Sprintf("out%d", o))
			_ = os.MkdirAll(oroot, 0o755)
			_ = os.WriteFile(filepath.Join(oroot, "0-stray-file.txt"), []byte("not a queue"), 0o644)
			_ = os.MkdirAll(filepath.Join(oroot, "0-dir-without-id"), 0o755)
			_ = os.WriteFile(filepath.Join(oroot, "0-dir-without-id", "note.txt"), []byte("x"), 0o644)
			_ = os.MkdirAll(filepath.Join(oroot, "1-dir-with-empty-id"), 0o755)
			_ = os.WriteFile(filepath.Join(oroot, "1-dir-with-empty-id", ".id"), nil, 0o644)
			_ = os.Symlink(filepath.Join(oroot, "no-such-target"), filepath.Join(oroot, "2-dangling-link"))
			_ = os.MkdirAll(filepath.Join(oroot, "zz-unreadable-id"), 0o755)
			_ = os.MkdirAll(filepath.Join(oroot, "zz-unreadable-id", ".id"), 0o755) // ".id" is a directory: reading it fails
		}
		res.Classes = append(res.Classes, "foreign-entries-in-the-buffer-root")
	}

	// ---- generation 2: start on the same root, no input
	ilog := &instLog{}
	ld2, err := agentrun.NewLoaderFromConfigFile(confPath, "c06r2_")
	if err != nil {
		panic(err)
	}
	ld2.PipelineArgs.NewConsumerOverride = ilog.override
	orch2 := ld2.StartOrchestrator(logger.Root())
	// pipelines for queued chunks are created synchronously inside StartOrchestrator: count them now
	ilog.mu.Lock()
	startInstances := ilog.instances
	ilog.mu.Unlock()
	// distinct pipeline IDs with chunks, over all outputs (a pipeline has every output)
	queues := map[string]bool{}     // dir name identifies the ID (sanitised id + hash), "" = root
	skippable := map[string]bool{}
	for k := range dirTuples {
		queues[k.dir] = true
		if knownSkipped[k] {
			skippable[k.dir] = true
		}
	}
	wantPipelines := len(queues) - len(skippable)
	shutdown := func() {
		orch2.Shutdown()
	}
	if startInstances != wantPipelines*c.Outputs {
		shutdown()
		if startInstances < wantPipelines*c.Outputs {
			var l []string
			for d := range queues {
				if !skippable[d] {
					l = append(l, fmt.Sprintf("%q", d))
				}
			}
			sort.Strings(l)
			res.Violation = vh.Fail("route:not-reattached-at-startup", "%d queue(s) with chunks on disk (directories %s; umask at creation %03o), but the restarted agent created only %d pipeline consumer(s) for %d output(s) at start-up: queued chunks stay undelivered until a new record of the same key set arrives",
				wantPipelines, strings.Join(l, " "), c.Umask, startInstances, c.Outputs)
		} else {
			res.Violation = vh.Fail("route:spurious-pipeline-at-startup", "%d queue(s) with chunks on disk can be reattached, but the restarted agent created %d pipeline consumer(s) for %d output(s) at start-up", wantPipelines, startInstances, c.Outputs)
		}
		return res
	}
	if len(skippable) > 0 {
		var l []string
		for d := range skippable {
			l = append(l, fmt.Sprintf("%q", d))
		}
		sort.Strings(l)
		if f := res.KnownOr("route:comma-id-not-reattached", "queue(s) %s belong to key tuples with a comma in a value: the ID is split at every comma, the tuple does not have the configured number of keys and the queue is ignored at start-up", strings.Join(l, " ")); f != nil {
			shutdown()
			res.Violation = f
			return res
		}
	}
	// wait for the recovered chunks of the reattached queues (bounded far beyond need; the consumers confirm at once)
	wantChunks := 0
	for _, dc := range disk {
		if !skippable[dc.dir] {
			wantChunks++
		}
	}
	waitFor := func(cond func() bool) bool {
		deadline := time.Now().Add(60 * time.Second)
		for time.Now().Before(deadline) {
			ilog.mu.Lock()
			ok := cond()
			ilog.mu.Unlock()
			if ok {
				return true
			}
			time.Sleep(2 * time.Millisecond)
		}
		return false
	}
	if !waitFor(func() bool { return len(ilog.got) >= wantChunks }) {
		dump := vh.GoroutineDump()
		shutdown()
		res.Violation = vh.Fail("route:reattached-queue-not-delivered", "pipelines were created for the queues at start-up but only %d of %d recovered chunks reached the consumers within 60 s\n%s", len(ilog.got), wantChunks, dump)
		return res
	}
	// every recovered chunk byte-identical, once, and one consumer instance serves exactly one tuple
	ilog.mu.Lock()
	recovered := append([]gotChunk(nil), ilog.got...)
	ilog.mu.Unlock()
	instTuple := map[int]string{}
	tupleInst := map[string]map[string]int{} // output -> tuple -> instance
	seenFile := map[string]bool{}
	for _, g := range recovered {
		var match *diskChunk
		for i := range disk {
			if disk[i].output == g.output && disk[i].file == g.id && string(disk[i].data) == string(g.data) && !seenFile[disk[i].output+"/"+disk[i].dir+"/"+disk[i].file] {
				match = &disk[i]
				break
			}
		}
		if match == nil {
			shutdown()
			res.Violation = vh.Fail("route:recovered-chunk-unknown", "the restarted agent delivered chunk %s on %s (%d bytes) which is not byte-identical to a not yet delivered queued file", g.id, g.output, len(g.data))
			return res
		}
		seenFile[match.output+"/"+match.dir+"/"+match.file] = true
		for _, t := range match.tuples {
			if prev, ok := instTuple[g.inst]; ok && prev != t {
				shutdown()
				res.Violation = vh.Fail("route:merged-pipeline", "after restart one pipeline consumer delivered chunks of two key tuples: %s and %s", prev, t)
				return res
			}
			instTuple[g.inst] = t
			if tupleInst[g.output] == nil {
				tupleInst[g.output] = map[string]int{}
			}
			if prev, ok := tupleInst[g.output][t]; ok && prev != g.inst {
				shutdown()
				res.Violation = vh.Fail("route:split-pipeline", "after restart the queued chunks of tuple %s on %s were delivered by two different pipelines", t, g.output)
				return res
			}
			tupleInst[g.output][t] = g.inst
		}
	}

	// ---- generation 2 continues: new records must join the pipeline that recovered the chunks of their key set
	if len(c.Again) > 0 {
		res.Classes = append(res.Classes, "new-records-after-recovery")
		sink2 := orch2.NewSink("gen2", 2)
		type exp struct {
			canon, text string
			isNew       bool
		}
		var exps []exp
		for n, idx := range c.Again {
			tu := c.Fresh
			isNew := true
			if idx < len(c.Tuples) {
				tu, isNew = c.Tuples[idx], false
			} else if _, ok := tupleByCanon[canon(tu)]; ok {
				isNew = false
			}
			if hasComma(tu) {
				continue // known finding: its queue was not reattached, and colliding IDs share pipelines' queues
			}
			text := fmt.Sprintf("g2-n%d", n)
			feed(ld2, sink2, c.NKeys, tu, text)
			exps = append(exps, exp{canon(tu), text, isNew})
		}
		sink2.Close()
		find := func(text, output string) (int, string, bool) {
			for _, g := range ilog.got[len(recovered):] {
				if g.output != output {
					continue
				}
				msg, err := vh.DecodeForwardMessage(g.data)
				if err != nil {
					continue
				}
				for _, ev := range msg.Events {
					if ev.Fields["log"] == text {
						return g.inst, tupleOfEvent(ev.Fields, c.NKeys), true
					}
				}
			}
			return 0, "", false
		}
		for _, e := range exps {
			for o := 0; o < c.Outputs; o++ {
				out := fmt.Sprintf("out%d", o)
				var inst int
				var gotTuple string
				if !waitFor(func() bool {
					var ok bool
					inst, gotTuple, ok = find(e.text, out)
					return ok
				}) {
					dump := vh.GoroutineDump()
					shutdown()
					res.Violation = vh.Fail("route:new-record-not-delivered", "record %q of tuple %s sent after the restart did not reach %s within 60 s\n%s", e.text, e.canon, out, dump)
					return res
				}
				if gotTuple != e.canon {
					shutdown()
					res.Violation = vh.Fail("route:queued-record-altered-keys", "record %q sent with tuple %s arrived with %s", e.text, e.canon, gotTuple)
					return res
				}
				if want, ok := tupleInst[out][e.canon]; ok {
					if inst != want {
						shutdown()
						res.Violation = vh.Fail("route:not-reattached-to-own-pipeline", "tuple %s: the queued chunks were recovered by pipeline consumer #%d of %s, a new record of the same tuple went through consumer #%d: the queue was attached to another key set's pipeline", e.canon, want, out, inst)
						return res
					}
				} else {
					if other, taken := instTuple[inst]; taken && other != e.canon {
						shutdown()
						res.Violation = vh.Fail("route:merged-pipeline", "a record of the new tuple %s went through the pipeline that recovered the queue of tuple %s", e.canon, other)
						return res
					}
					instTuple[inst] = e.canon
					if tupleInst[out] == nil {
						tupleInst[out] = map[string]int{}
					}
					tupleInst[out][e.canon] = inst
				}
			}
		}
	}
	shutdown()
	return res
}

var restartAlphabet = []string{"", "a", "b", "ab", ",", "a,b", "/", ".", "..", "\x00", " ", "a\nb", "A", "\xff\xfe"}

func genRestart(t *rapid.T) RCase {
	c := RCase{NKeys: rapid.IntRange(1, 3).Draw(t, "nkeys")}
	c.Template = rapid.SampledFrom(templates[c.NKeys]).Draw(t, "tmpl")
	c.Umask = rapid.SampledFrom([]int{0o022, 0o022, 0o027, 0o077, 0o002, 0o007}).Draw(t, "umask")
	c.Foreign = rapid.IntRange(0, 2).Draw(t, "foreign") == 0
	c.Outputs = rapid.SampledFrom([]int{1, 2, 2}).Draw(t, "outputs")
	c.Asym = c.Outputs == 2 && rapid.Bool().Draw(t, "asym")
	nt := rapid.IntRange(1, 5).Draw(t, "ntuples")
	seen := map[string]bool{}
	genTu := func() [][]byte {
		tu := make([][]byte, c.NKeys)
		for i := range tu {
			switch k := rapid.IntRange(0, 15).Draw(t, "vKind"); map[bool]int{true: 4, false: k % 4}[k == 15] {
			case 4:
				tu[i] = []byte(strings.Repeat(rapid.SampledFrom([]string{"x", "ab"}).Draw(t, "u"), rapid.SampledFrom([]int{120, 123, 124, 130}).Draw(t, "rep")))
			case 0, 1:
				tu[i] = []byte(rapid.SampledFrom(restartAlphabet).Draw(t, "v"))
			case 2:
				tu[i] = []byte(rapid.StringMatching(`[ab:01_-]{0,6}`).Draw(t, "v"))
			default:
				tu[i] = rapid.SliceOfN(rapid.Byte(), 0, 10).Draw(t, "v")
			}
		}
		return tu
	}
	for i := 0; i < nt; i++ {
		tu := genTu()
		if seen[canon(tu)] {
			continue
		}
		seen[canon(tu)] = true
		c.Tuples = append(c.Tuples, tu)
		c.PerTuple = append(c.PerTuple, rapid.IntRange(1, 3).Draw(t, "n"))
	}
	c.Fresh = genTu()
	na := rapid.IntRange(0, 3).Draw(t, "nagain")
	for i := 0; i < na; i++ {
		c.Again = append(c.Again, rapid.IntRange(0, len(c.Tuples)).Draw(t, "again"))
	}
	return c
}

// enumRestart: every single tuple over the alphabet for one key field, and every pair for two, under each umask class.
func enumRestart(yield func(RCase) bool) {
	for _, um := range []int{0o022, 0o027, 0o077} {
		var all1 [][][]byte
		for _, a := range restartAlphabet {
			all1 = append(all1, [][]byte{[]byte(a)})
			if !yield(RCase{NKeys: 1, Template: "t.$k0", Umask: um, Outputs: 1, Tuples: [][][]byte{{[]byte(a)}}, PerTuple: []int{2}, Again: []int{0, 1}, Fresh: [][]byte{[]byte("fresh")}}) {
				return
			}
		}
		for _, a := range restartAlphabet {
			for _, b := range restartAlphabet {
				if !yield(RCase{NKeys: 2, Template: "$k0.$k1", Umask: um, Outputs: 1, Tuples: [][][]byte{{[]byte(a), []byte(b)}, {[]byte(b), []byte(a + "x")}}, PerTuple: []int{1, 2}, Again: []int{1, 0}, Fresh: [][]byte{[]byte("f"), []byte("")}}) {
					return
				}
			}
		}
		long1, long2 := []byte(strings.Repeat("x", 250)), []byte(strings.Repeat("y", 260))
		for _, tuples := range [][][][]byte{{{long1}}, {{long1}, {[]byte("")}}, {{long1}, {long2}}, {{long1}, {[]byte("a")}}} {
			per := make([]int, len(tuples))
			for i := range per {
				per[i] = 2
			}
			if !yield(RCase{NKeys: 1, Template: "t.$k0", Umask: um, Outputs: 1, Tuples: tuples, PerTuple: per, Again: []int{0, len(tuples)}, Fresh: [][]byte{[]byte("")}}) {
				return
			}
		}
		// all one-key tuples at once
		per := make([]int, len(all1))
		for i := range per {
			per[i] = 1
		}
		if !yield(RCase{NKeys: 1, Template: "x-${k0[:1]}-y", Umask: um, Outputs: 2, Tuples: all1, PerTuple: per, Again: []int{0, 3, 5}, Fresh: [][]byte{[]byte("fresh")}}) {
			return
		}
	}
}

func TestC06Restart(t *testing.T) {
	vh.Run(t, vh.Spec[RCase]{
		Name: "reattach", Gen: genRestart, Run: runRestartForProperty, Quick: 150, Thorough: 3000, Enum: enumRestart, EnumSharded: true,
		Rule: "two generations of the real agent core (run.Loader, obykeyset.Config.StartOrchestrator, real pipelines and hybrid buffers, 1-2 outputs) on one buffer root: generation 1 receives records of 1-5 key tuples (alphabet incl. '', separators, NUL, newline, invalid UTF-8; arbitrary bytes) with stalled consumers under umask 022/027/077/002/007, generation 2 starts with no input (in a third of the cases after files, directories without / with an empty / unreadable .id and a dangling link were put into the buffer roots); oracle = every record is in a queue file under its own tag, no directory shared between tuples, one pipeline per queue with chunks is created synchronously at start-up, every queued chunk is delivered once and byte-identical, one pipeline serves one tuple, and a record sent after the restart goes through the very pipeline consumer that recovered the queue of its tuple (new tuple: a pipeline of its own); every case is non-trivial",
	})
}

// runRestartForProperty: ./check C17 runs this layer too. A successful reload starts the new pipeline set exactly as a
// restart does (the reloader's completion function calls the same StartOrchestrator, which lists the queue directories and
// re-creates one pipeline per stored ID), so "queued chunks of the old pipelines are taken over" is decided here for key
// tuples the end-to-end reload layer does not have (empty values, separators, arbitrary bytes). Only that verdict is
// C17's business; the comma cases (known findings of C06) are C06's.
func runRestartForProperty(c RCase) vh.Result {
	res := runRestart(c)
	if vh.PropertyID == "C17" && res.Violation != nil && res.Violation.Key != "route:not-reattached-at-startup" {
		res.Violation = nil
	}
	if vh.PropertyID == "C17" {
		res.Known = nil
	}
	return res
}
