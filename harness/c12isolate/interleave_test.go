// C12, interleaved pipelines: in the agent every key set has a pipeline goroutine of its own with private serializers and
// chunk makers, and the goroutines run concurrently: between one pipeline's SerializeRecord and its WriteStream any other
// pipeline may serialize a record of its own. Whether that ever goes wrong in a concurrent run is up to the scheduler; here
// the harness owns the schedule. Every pipeline step is split into its two calls and the calls of 2-4 pipelines are
// interleaved as generated - each a legal interleaving of the agent's goroutines at call granularity.
package c12isolate

import (
	"bytes"
	"compress/gzip"
	"encoding/json"
	"fmt"
	"io"
	"strings"
	"testing"

	"github.com/relex/slog-agent/base"
	"github.com/relex/slog-agent/base/bsupport"
	"pgregory.net/rapid"

	"verifharness/vh"
)

type ICase struct {
	Pipelines int             `json:"pipelines"`
	Lines     []vh.SyslogLine `json:"lines"`    // record i belongs to pipeline i % Pipelines
	Schedule  []int           `json:"schedule"` // which pipeline makes its next call (index modulo the pipelines that still have calls to make)
}

type pendingWrite struct {
	out    int
	stream base.LogStream
	want   []byte
}

func runInterleaved(c ICase) vh.Result {
	res := vh.Result{}
	ld := load(Case{Sample: true})
	alloc := base.NewLogAllocator(ld.schema, len(ld.conf.OutputBuffersPairs))
	type pipe struct {
		sp      *vh.SyncPipeline
		lines   [][]byte
		next    int            // next line to parse
		rec     *base.LogRecord // transformed record waiting for its serializers
		out     int            // next output to serialize rec for
		pending *pendingWrite  // serialized, not yet written
		written [][][]byte     // per output: expected streams in write order
	}
	pipes := make([]*pipe, c.Pipelines)
	for i := range pipes {
		sp, err := vh.NewSyncPipelineOpt(ld.conf, ld.schema, fmt.Sprintf("tag%d", i), vh.SyncOptions{Allocator: alloc, MetricName: fmt.Sprintf("il%d_", i)})
		if err != nil {
			panic(err)
		}
		pipes[i] = &pipe{sp: sp, written: make([][][]byte, len(sp.Serializers))}
	}
	for i, l := range c.Lines {
		p := pipes[i%c.Pipelines]
		p.lines = append(p.lines, l.Bytes())
	}
	// one call of pipeline p; returns false when it has nothing left to do
	interleavedWrite := false
	step := func(p *pipe, others bool) bool {
		switch {
		case p.pending != nil:
			// WriteStream of the stream serialized by this pipeline's previous call
			if others {
				interleavedWrite = true
			}
			pw := p.pending
			p.pending = nil
			if ch := p.sp.ChunkMakers[pw.out].WriteStream(pw.stream); ch != nil {
				p.sp.Chunks[pw.out] = append(p.sp.Chunks[pw.out], ch)
			}
			p.written[pw.out] = append(p.written[pw.out], pw.want)
			return true
		case p.rec != nil:
			ser := p.sp.Serializers[p.out]
			stream := ser.SerializeRecord(p.rec)
			alloc.Release(p.rec)
			p.pending = &pendingWrite{out: p.out, stream: stream, want: append([]byte(nil), stream...)}
			p.out++
			if p.out >= len(p.sp.Serializers) {
				p.rec, p.out = nil, 0
			}
			return true
		case p.next < len(p.lines):
			line := p.lines[p.next]
			p.next++
			rec := p.sp.Parser.Parse(line, p.sp.FallbackTS)
			if rec == nil {
				return true
			}
			ic := p.sp.ProcCount.SelectMetricKeySet(rec)
			if bsupport.RunTransforms(rec, p.sp.Transforms) == base.DROP {
				ic.CountRecordDrop(rec)
				alloc.Release(rec)
				return true
			}
			ic.CountRecordPass(rec)
			p.rec, p.out = rec, 0
			return true
		}
		return false
	}
	lastPipe := -1
	sinceSerialize := make([]bool, c.Pipelines) // another pipeline made a call since this pipeline's SerializeRecord
	for k := 0; ; k++ {
		var live []int
		for i, p := range pipes {
			if p.pending != nil || p.rec != nil || p.next < len(p.lines) {
				live = append(live, i)
			}
		}
		if len(live) == 0 {
			break
		}
		pick := live[0]
		if len(c.Schedule) > 0 {
			pick = live[c.Schedule[k%len(c.Schedule)]%len(live)]
		}
		p := pipes[pick]
		wasPending := p.pending != nil
		step(p, wasPending && sinceSerialize[pick])
		for i := range sinceSerialize {
			if i != pick {
				sinceSerialize[i] = true
			}
		}
		if p.pending != nil && !wasPending {
			sinceSerialize[pick] = false
		}
		lastPipe = pick
	}
	_ = lastPipe
	// what each pipeline's chunks hold must be exactly the streams it serialized, in order
	for i, p := range pipes {
		p.sp.Flush()
		for o := range p.sp.ChunkMakers {
			var got [][]byte
			for _, ch := range p.sp.Chunks[o] {
				entries, tag, err := chunkEntries(ch)
				if err != nil {
					res.Violation = vh.Fail("isolate:interleaved-chunk-undecodable", "pipeline %d output %d: chunk %s does not decode: %v", i, o, ch.ID, err)
					res.NonTrivial = true
					return res
				}
				if tag != "" && tag != fmt.Sprintf("tag%d", i) {
					res.Violation = vh.Fail("isolate:interleaved-foreign-tag", "pipeline %d output %d: chunk %s carries tag %q", i, o, ch.ID, tag)
					res.NonTrivial = true
					return res
				}
				got = append(got, entries...)
			}
			want := p.written[o]
			if len(got) != len(want) {
				res.Violation = vh.Fail("isolate:interleaved-record-count", "pipeline %d output %d: %d records were written, its chunks hold %d", i, o, len(want), len(got))
				res.NonTrivial = true
				return res
			}
			for k := range want {
				if !bytes.Equal(got[k], want[k]) {
					res.Violation = vh.Fail("isolate:interleaved-foreign-record", "pipeline %d output %d record %d: the chunk holds something else than what this pipeline serialized - another pipeline's call between SerializeRecord and WriteStream changed it\n serialized %.300q\n in chunk   %.300q", i, o, k, want[k], got[k])
					res.NonTrivial = true
					return res
				}
			}
		}
	}
	res.NonTrivial = interleavedWrite
	if interleavedWrite {
		res.Classes = append(res.Classes, "another-pipeline-ran-between-serialize-and-write")
	}
	res.Classes = append(res.Classes, fmt.Sprintf("pipelines-%d", c.Pipelines))
	return res
}

func genInterleaved(t *rapid.T) ICase {
	c := ICase{Pipelines: rapid.IntRange(2, 4).Draw(t, "pipelines")}
	n := rapid.IntRange(c.Pipelines, 16).Draw(t, "nlines")
	for i := 0; i < n; i++ {
		c.Lines = append(c.Lines, vh.GenRealisticLine(t, 3000))
	}
	c.Schedule = rapid.SliceOfN(rapid.IntRange(0, 11), 1, 40).Draw(t, "schedule")
	return c
}

func TestC12Interleaved(t *testing.T) {
	vh.Run(t, vh.Spec[ICase]{
		Name: "interleaved-pipelines", Gen: genInterleaved, Run: runInterleaved, Quick: 400, Thorough: 6000,
		Rule: "2-4 pipelines of the sample configuration (private parser, transforms, serializers and chunk makers each, one shared record allocator, as in the agent) process 2-16 generated lines; every pipeline step is split into its calls (parse+transform, SerializeRecord per output, WriteStream per output) and the calls of the pipelines are interleaved by a generated schedule - each a legal interleaving of the agent's pipeline goroutines at call granularity; oracle: every pipeline's chunks decode, carry its own tag and hold exactly the streams this pipeline serialized, in order; non-trivial = another pipeline made a call between some SerializeRecord and its WriteStream",
	})
}

// chunkEntries returns the serialized records a chunk holds (Forward: the [time, record] entries; Datadog: the JSON objects)
// and, for Forward, its tag.
func chunkEntries(ch *base.LogChunk) ([][]byte, string, error) {
	if strings.HasSuffix(ch.ID, ".dd") {
		zr, err := gzip.NewReader(bytes.NewReader(ch.Data))
		if err != nil {
			return nil, "", err
		}
		raw, err := io.ReadAll(zr)
		if err != nil {
			return nil, "", err
		}
		var arr []json.RawMessage
		if err := json.Unmarshal(raw, &arr); err != nil {
			return nil, "", err
		}
		out := make([][]byte, len(arr))
		for i, e := range arr {
			out[i] = []byte(e)
		}
		return out, "", nil
	}
	msg, err := vh.DecodeForwardMessage(ch.Data)
	if err != nil {
		return nil, "", err
	}
	return msg.RawEntries, msg.Tag, nil
}
