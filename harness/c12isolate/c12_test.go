// C12 — records are isolated from each other despite pooling and buffer reuse.
package c12isolate

import (
	"bytes"
	"fmt"
	"os"
	"runtime"
	"runtime/debug"
	"sync"
	"testing"
	"unsafe"

	"github.com/relex/gotils/logger"
	"github.com/relex/slog-agent/base"
	"github.com/relex/slog-agent/defs"
	"github.com/relex/slog-agent/run"
	"pgregory.net/rapid"

	"verifharness/tprog"
	"verifharness/vh"
)

var scratch string

func init() {
	vh.QuietLogs(logger.FatalLevel)
	defs.InputLogMaxMessageBytes = 8192
	defs.InputLogMaxRecordBytes = 8192 + 256
	scratch, _ = os.MkdirTemp("", "verif-c12-")
	os.Setenv("VERIF_SCRATCH", scratch)
}

func TestMain(m *testing.M) {
	code := m.Run()
	os.RemoveAll(scratch)
	os.Exit(code)
}

type Case struct {
	Sample  bool            `json:"sample"` // sample configuration (two outputs) or a generated one
	Spec    *tprog.FileSpec `json:"spec,omitempty"`
	Lines   []vh.SyslogLine `json:"lines"`
	Workers int             `json:"workers"` // >1: concurrent variant, goroutines with private parsers sharing one allocator
	Long    *LongSpec       `json:"long,omitempty"`
	Batch   int             `json:"batch,omitempty"` // >1: the long-lived pipeline parses this many lines (parser + input extractions) before the
	// worker stage transforms and serializes them, as the agent does (records of one read are in flight together)
}

// LongSpec turns Lines into a pool: the stream is N records, each a pool line with its own valid timestamp (date, 0-9
// fraction digits, numeric zone in colon or compact form or Z), chosen by a fixed generator from Seed. Long-lived state
// that only goes wrong after many records (caches keyed by record contents) needs streams of this length.
type LongSpec struct {
	N       int    `json:"n"`
	Seed    uint64 `json:"seed"`
	LowPool bool   `json:"lowPool"` // pooling threshold (a defs variable) lowered to 64 bytes: short records use recycled buffers too
}

func expandLong(c Case) [][]byte {
	x := c.Long.Seed | 1
	next := func(n int) int {
		x = x*6364136223846793005 + 1442695040888963407
		return int((x >> 33) % uint64(n))
	}
	out := make([][]byte, 0, c.Long.N)
	for k := 0; k < c.Long.N; k++ {
		l := c.Lines[next(len(c.Lines))]
		frac := ""
		if nd := next(10); nd > 0 {
			frac = "." + "123456789"[:nd]
		}
		zone := "Z"
		switch next(8) {
		case 0:
		case 1, 2:
			zone = fmt.Sprintf("%c%02d%s", "+-"[next(2)], next(15), []string{"00", "30", "45"}[next(3)])
		default:
			zone = fmt.Sprintf("%c%02d:%s", "+-"[next(2)], next(15), []string{"00", "30", "45"}[next(3)])
		}
		l.Time = []byte(fmt.Sprintf("20%02d-%02d-%02dT%02d:%02d:%02d%s%s", next(40), 1+next(12), 1+next(28), next(24), next(60), next(60), frac, zone))
		out = append(out, l.Bytes())
	}
	return out
}

type loaded struct {
	conf   run.Config
	schema base.LogSchema
}

var confCache = map[string]loaded{}

func load(c Case) loaded {
	var text string
	if c.Sample {
		text = vh.SampleConfigText(scratch+"/buf", true)
	} else {
		s := *c.Spec
		s.BufferRoot = scratch + "/buf"
		text = s.YAML()
	}
	if l, ok := confCache[text]; ok {
		return l
	}
	conf, schema, err := vh.LoadConfigText(text)
	if err != nil {
		panic("harness generated a configuration that is rejected: " + err.Error() + "\n" + text)
	}
	if len(confCache) > 50 {
		confCache = map[string]loaded{}
	}
	confCache[text] = loaded{conf, schema}
	return confCache[text]
}

type outcome struct {
	parsed, passed bool
	streams        [][]byte
}

func same(a, b outcome) string {
	if a.parsed != b.parsed || a.passed != b.passed {
		return fmt.Sprintf("parsed/passed %v/%v vs %v/%v", a.parsed, a.passed, b.parsed, b.passed)
	}
	if len(a.streams) != len(b.streams) {
		return "different number of outputs"
	}
	for i := range a.streams {
		if !bytes.Equal(a.streams[i], b.streams[i]) {
			return fmt.Sprintf("output %d differs:\n long-lived %.300q\n fresh      %.300q", i, a.streams[i], b.streams[i])
		}
	}
	return ""
}

func run1(c Case) vh.Result {
	res := vh.Result{}
	ld := load(c)
	old := debug.SetGCPercent(-1) // keep sync.Pool contents alive during the case so that reuse actually happens
	defer func() {
		debug.SetGCPercent(old)
		runtime.GC()
	}()
	inputs := make([][]byte, len(c.Lines))
	for i, l := range c.Lines {
		inputs[i] = l.Bytes()
	}
	if c.Long != nil {
		inputs = expandLong(c)
		res.Classes = append(res.Classes, "long-stream-with-varied-timestamps")
		if c.Long.LowPool {
			oldPool := defs.InputLogMinRecordBytesToPool
			defs.InputLogMinRecordBytesToPool = 64
			defer func() { defs.InputLogMinRecordBytesToPool = oldPool }()
			res.Classes = append(res.Classes, "pooling-threshold-lowered")
		}
	}
	// reference: every record on fresh instances
	want := make([]outcome, len(inputs))
	for i, in := range inputs {
		sp, err := vh.NewSyncPipelineOpt(ld.conf, ld.schema, "tag", vh.SyncOptions{NoChunks: true})
		if err != nil {
			panic(err)
		}
		r := sp.Process(in)
		want[i] = outcome{r.Parsed, r.Passed, r.Streams}
	}
	workers := max(1, c.Workers)
	alloc := base.NewLogAllocator(ld.schema, len(ld.conf.OutputBuffersPairs))
	type seen struct{ mask uint64 }
	var mu sync.Mutex
	ptrSeen := map[uintptr]uint64{}
	reused, reusedDifferentShape, total := 0, 0, 0
	got := make([]outcome, len(inputs))
	var wg sync.WaitGroup
	var firstErr *vh.Finding
	for w := 0; w < workers; w++ {
		wg.Add(1)
		go func(w int) {
			defer wg.Done()
			pf := vh.Protect(func() {
				sp, err := vh.NewSyncPipelineOpt(ld.conf, ld.schema, "tag", vh.SyncOptions{NoChunks: true, Allocator: alloc, MetricName: fmt.Sprintf("w%d_", w)})
				if err != nil {
					panic(err)
				}
				sp.Observe = func(stage string, rec *base.LogRecord) {
					if stage != "parsed" {
						return
					}
					var mask uint64
					for i, f := range rec.Fields {
						if f != "" && i < 64 {
							mask |= 1 << i
						}
					}
					p := uintptr(unsafe.Pointer(rec))
					mu.Lock()
					total++
					if prev, ok := ptrSeen[p]; ok {
						reused++
						if prev != mask {
							reusedDifferentShape++
						}
					}
					ptrSeen[p] = mask
					mu.Unlock()
				}
				// each worker processes the whole stream in a rotated order; outcome recorded for its own share
				if c.Batch > 1 {
					for k := 0; k < len(inputs); k += c.Batch {
						var idx []int
						var lines [][]byte
						for j := k; j < min(k+c.Batch, len(inputs)); j++ {
							i := (j + w*len(inputs)/workers) % len(inputs)
							idx = append(idx, i)
							lines = append(lines, append([]byte(nil), inputs[i]...))
						}
						for n, r := range sp.ProcessBatch(lines) {
							if idx[n]%workers == w {
								got[idx[n]] = outcome{r.Parsed, r.Passed, r.Streams}
							}
						}
					}
					return
				}
				for k := range inputs {
					i := (k + w*len(inputs)/workers) % len(inputs)
					in := append([]byte(nil), inputs[i]...) // the listener's line buffer is overwritten after the call
					r := sp.Process(in)
					for j := range in {
						in[j] = '~'
					}
					if i%workers == w {
						got[i] = outcome{r.Parsed, r.Passed, r.Streams}
					}
				}
			})
			if pf != nil {
				mu.Lock()
				if firstErr == nil {
					firstErr = pf
				}
				mu.Unlock()
			}
		}(w)
	}
	wg.Wait()
	if firstErr != nil {
		res.Violation = firstErr
		return res
	}
	res.NonTrivial = reusedDifferentShape > 0
	if reused > 0 {
		res.Classes = append(res.Classes, "record-object-reused")
	}
	if reusedDifferentShape > 0 {
		res.Classes = append(res.Classes, "reused-after-record-with-different-fields")
	}
	if c.Sample {
		res.Classes = append(res.Classes, "sample-config")
	} else {
		res.Classes = append(res.Classes, "generated-config")
	}
	if workers > 1 {
		res.Classes = append(res.Classes, "concurrent")
	}
	if c.Batch > 1 {
		res.Classes = append(res.Classes, "records-in-flight-together(batch)")
	}
	pooled := false
	for _, in := range inputs {
		if len(in) > 1024 {
			pooled = true
		}
	}
	if pooled {
		res.Classes = append(res.Classes, "pooled-backing-buffer")
	}
	for i := range inputs {
		if d := same(got[i], want[i]); d != "" {
			res.Violation = vh.Fail("isolate:differs-from-fresh", "record %d of %d (%d bytes) processed after other records differs from the same record on a fresh pipeline: %s\n line %.200q", i, len(inputs), len(inputs[i]), d, inputs[i])
			return res
		}
	}
	return res
}

func gen(t *rapid.T) Case {
	var c Case
	c.Sample = rapid.IntRange(0, 2).Draw(t, "sample") > 0
	if !c.Sample {
		s := tprog.GenFileSpec(t, false)
		c.Spec = &s
	}
	n := rapid.IntRange(2, 24).Draw(t, "nlines")
	var prev vh.SyslogLine
	for i := 0; i < n; i++ {
		if i > 0 && rapid.IntRange(0, 4).Draw(t, "repeat") == 0 {
			c.Lines = append(c.Lines, prev)
			continue
		}
		prev = vh.GenRealisticLine(t, 3000)
		c.Lines = append(c.Lines, prev)
	}
	if rapid.Bool().Draw(t, "batched") {
		c.Batch = rapid.IntRange(2, 24).Draw(t, "batch")
	}
	c.Workers = 1
	if os.Getenv("VERIF_RACE") != "" || rapid.IntRange(0, 5).Draw(t, "conc") == 0 {
		c.Workers = rapid.IntRange(2, 6).Draw(t, "workers")
	}
	return c
}

func genLong(t *rapid.T) Case {
	var c Case
	c.Sample = rapid.IntRange(0, 2).Draw(t, "sample") > 0
	if !c.Sample {
		s := tprog.GenFileSpec(t, false)
		c.Spec = &s
	}
	n := rapid.IntRange(2, 8).Draw(t, "npool")
	for i := 0; i < n; i++ {
		c.Lines = append(c.Lines, vh.GenRealisticLine(t, 3000))
	}
	if rapid.Bool().Draw(t, "batched") {
		c.Batch = rapid.SampledFrom([]int{2, 8, 64, 500}).Draw(t, "batch")
	}
	c.Workers = 1
	c.Long = &LongSpec{N: rapid.IntRange(200, 1500).Draw(t, "n"), Seed: rapid.Uint64().Draw(t, "seed"), LowPool: rapid.Bool().Draw(t, "lowPool")}
	return c
}

func TestC12LongStreams(t *testing.T) {
	vh.Run(t, vh.Spec[Case]{
		Name: "long-streams", Gen: genLong, Run: run1, Quick: 25, Thorough: 400, ShrinkSeconds: 30,
		Rule: "streams of 200-1500 records drawn from a pool of 2-8 generated lines, each with its own valid timestamp (all dates, 0-9 fraction digits, zones +-hh:00/30/45 in colon and compact form, Z), on one long-lived pipeline versus each record alone on a fresh one; in half of the cases the pooling threshold (defs variable) is lowered to 64 bytes so that short records use recycled backing buffers as records over 1024 bytes do; oracle and non-triviality as in the isolation check",
	})
}

func TestC12Isolation(t *testing.T) {
	vh.Run(t, vh.Spec[Case]{
		Name: "isolation", Gen: gen, Run: run1, Quick: 1500, Thorough: 15000,
		Rule: "streams of 2-24 syslog lines (pools of hosts/apps/sources that drive the sample configuration's branches, arbitrary tokens, optional fields, escapes, multi-line, e-mails; short, around the 1024-byte pooling threshold and large; repetitions) processed on one long-lived allocator+parser+extractions+transforms+serializers, one record at a time or, in half of the cases, in batches that are parsed first and transformed+serialized afterwards as in the agent's two stages (caller buffer overwritten after each parse, GC disabled during the case so that sync.Pool reuse happens) versus each record alone on fresh instances; sample configuration (two outputs) and generated configurations without sampled drops; 1 in 6 cases (all in the -race run) with 2-6 goroutines sharing one allocator; oracle = serialized output per record and per output identical; non-trivial = a LogRecord object was reused after a record with a different set of non-empty fields (pointer identity, measured)",
	})
}
