package c13time

import (
	"testing"

	"verifharness/vh"
)

// FuzzTimeTotal: coverage-guided exploration of arbitrary strings with the totality oracle (thorough tier).
func FuzzTimeTotal(f *testing.F) { vh.FuzzSpec(f, genTotal, runTotal) }
