package c13time

// C13, several pipelines at once: every pipeline has its own parseTime transform and runs in its own goroutine. They
// meet the same, not yet seen zone strings at the same moment; every instant must be exact and nothing may crash. The file
// name makes this test run first in the package: the exhaustive sub-check later feeds every valid zone string to a
// transform, after which state wrongly shared between instances would only ever be read.
// (State shared between transform instances would be written concurrently: the Go runtime kills the process with
// "fatal error: concurrent map writes"; the driver attributes the death to the journalled case and re-executes it.)

import (
	"fmt"
	"sync"
	"testing"
	"time"

	"github.com/relex/slog-agent/base"
	"pgregory.net/rapid"

	"verifharness/vh"
)

type ConcCase struct {
	Pipelines int    `json:"pipelines"`
	Zones     int    `json:"zones"`
	Seed      uint64 `json:"seed"`
}

func runConc(c ConcCase) vh.Result {
	res := vh.Result{NonTrivial: c.Pipelines > 1}
	res.Classes = append(res.Classes, fmt.Sprintf("pipelines-%d", c.Pipelines))
	// the zone strings, in one order for everybody
	x := c.Seed | 1
	next := func(n int) int {
		x = x*6364136223846793005 + 1442695040888963407
		return int((x >> 33) % uint64(n))
	}
	var cases []ValidCase
	for i := 0; i < c.Zones; i++ {
		v := ValidCase{Year: 2000 + next(40), Month: 1 + next(12), Day: 1 + next(28), Hour: next(24), Min: next(60), Sec: next(60), OffSign: []string{"+", "-"}[next(2)], OffH: next(24), OffM: next(60), Compact: next(2) == 0}
		cases = append(cases, v)
	}
	envs := make([]*env, c.Pipelines)
	for i := range envs {
		envs[i] = newEnv()
	}
	var wg sync.WaitGroup
	var mu sync.Mutex
	var bad *vh.Finding
	step := make([]chan struct{}, len(cases))
	for i := range step {
		step[i] = make(chan struct{})
	}
	for p := range envs {
		wg.Add(1)
		go func(e *env) {
			defer wg.Done()
			rec := e.schema.NewTestRecord1(base.LogFields{"", "x"})
			for i, v := range cases {
				<-step[i] // everybody meets zone i at the same moment
				s := v.String()
				rec.Fields[0] = s
				rec.Timestamp = time.Unix(1, 0)
				e.tf.Transform(rec)
				wantSec, wantNsec, wantOff := v.expected()
				if _, off := rec.Timestamp.Zone(); rec.Timestamp.Unix() != wantSec || rec.Timestamp.Nanosecond() != wantNsec || off != wantOff {
					mu.Lock()
					if bad == nil {
						bad = vh.Fail("time:wrong-instant-with-concurrent-pipelines", "%q parsed while %d pipelines work at the same time: got %d.%09d offset %d, want %d.%09d offset %d", s, c.Pipelines, rec.Timestamp.Unix(), rec.Timestamp.Nanosecond(), off, wantSec, wantNsec, wantOff)
					}
					mu.Unlock()
				}
			}
		}(envs[p])
	}
	for i := range step {
		close(step[i])
	}
	wg.Wait()
	res.Violation = bad
	return res
}

func genConc(t *rapid.T) ConcCase {
	return ConcCase{Pipelines: rapid.IntRange(2, 12).Draw(t, "pipelines"), Zones: rapid.IntRange(200, 3000).Draw(t, "zones"), Seed: rapid.Uint64().Draw(t, "seed")}
}

func TestC13Concurrent(t *testing.T) {
	vh.Run(t, vh.Spec[ConcCase]{
		Name: "concurrent-pipelines", Gen: genConc, Run: runConc, Quick: 40, Thorough: 600, Journal: true,
		Rule: "2-12 goroutines, each with its own parseTime transform (as every pipeline has), parse the same 200-3000 valid timestamps with zones nobody has seen before, released to all of them at the same moment; oracle = arithmetic reference instant and offset, and the process survives (a fatal runtime error is attributed to the journalled case); every case is non-trivial",
	})
}
