package c13time

// C13, streams through recycled buffers: in the agent the time field of a record longer than 1 KB is a substring of a
// pooled backing buffer that is reused by later records. One long-lived transform parses a stream of valid timestamps
// that all live, one after the other, in the same buffer; every instant must still be exact.

import (
	"fmt"
	"testing"
	"time"
	"unsafe"

	"github.com/relex/slog-agent/base"
	"pgregory.net/rapid"

	"verifharness/vh"
)

type StreamCase struct {
	Seed  uint64 `json:"seed"`
	N     int    `json:"n"`
	Zones int    `json:"zones"` // how many different zone hours are in use (1..15)
}

func runStream(c StreamCase) vh.Result {
	e := newEnv() // fresh cache per case: the verdict depends on the case only
	rec := e.schema.NewTestRecord1(base.LogFields{"", "x"})
	buf := make([]byte, 64)
	x := c.Seed | 1
	next := func(n int) int {
		x = x*6364136223846793005 + 1442695040888963407
		return int((x >> 33) % uint64(n))
	}
	res := vh.Result{NonTrivial: c.N >= 200 && c.Zones > 1}
	res.Classes = append(res.Classes, fmt.Sprintf("zones-%d", min(c.Zones, 4)*1), "time-field-in-recycled-buffer")
	for k := 0; k < c.N; k++ {
		v := ValidCase{Year: 1970 + next(100), Month: 1 + next(12), Hour: next(24), Min: next(60), Sec: next(60)}
		v.Day = 1 + next(daysIn(v.Year, v.Month))
		if nd := next(10); nd > 0 {
			v.Frac = "987654321"[:nd]
		}
		switch next(8) {
		case 0:
			v.OffSign = "Z"
		default:
			v.OffSign = []string{"+", "-"}[next(2)]
			v.OffH, v.OffM = next(c.Zones), []int{0, 30, 45}[next(3)]
			v.Compact = next(3) == 0
		}
		s := v.String()
		n := copy(buf, s)
		rec.Fields[0] = unsafe.String(&buf[0], n)
		rec.Timestamp = time.Unix(1, 0)
		e.tf.Transform(rec)
		wantSec, wantNsec, wantOff := v.expected()
		got := rec.Timestamp
		if _, off := got.Zone(); got.Unix() != wantSec || got.Nanosecond() != wantNsec || off != wantOff {
			res.Violation = vh.Fail("time:wrong-instant-after-other-records", "timestamp %d of the stream, %q (its bytes live in a buffer reused by every record, as the backing buffers of pooled records are): got %d.%09d zone offset %d, want %d.%09d offset %d",
				k, s, got.Unix(), got.Nanosecond(), off, wantSec, wantNsec, wantOff)
			return res
		}
	}
	return res
}

func genStream(t *rapid.T) StreamCase {
	return StreamCase{Seed: rapid.Uint64().Draw(t, "seed"), N: rapid.IntRange(50, 3000).Draw(t, "n"), Zones: rapid.IntRange(1, 15).Draw(t, "zones")}
}

func TestC13Streams(t *testing.T) {
	vh.Run(t, vh.Spec[StreamCase]{
		Name: "recycled-buffer-streams", Gen: genStream, Run: runStream, Quick: 300, Thorough: 5000,
		Rule: "streams of 50-3000 valid timestamps (years 1970-2069, 0-9 fraction digits, 1-15 zone hours x {00,30,45} in colon and compact form, Z) parsed by one long-lived transform while the time field always points into the same reused buffer; oracle = instant and offset computed arithmetically; non-trivial = at least 200 timestamps and more than one zone",
	})
}
