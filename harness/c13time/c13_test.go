// C13 — timestamps are parsed exactly; parsing is total.
package c13time

import (
	"fmt"
	"strings"
	"testing"
	"time"

	"github.com/relex/gotils/logger"
	"github.com/relex/slog-agent/base"
	"github.com/relex/slog-agent/base/btest"
	"github.com/relex/slog-agent/transform/tparsetime"
	"pgregory.net/rapid"

	"verifharness/vh"
)

// ---------------------------------------------------------------------------
// valid domain: components -> string -> transform -> instant computed arithmetically

type ValidCase struct {
	Year, Month, Day, Hour, Min, Sec int
	Frac                             string // digits only, 0..9 of them
	OffSign                          string // "Z", "+", "-"
	OffH, OffM                       int
	Compact                          bool // ±hhmm instead of ±hh:mm
}

func (c ValidCase) String() string {
	s := fmt.Sprintf("%04d-%02d-%02dT%02d:%02d:%02d", c.Year, c.Month, c.Day, c.Hour, c.Min, c.Sec)
	if c.Frac != "" {
		s += "." + c.Frac
	}
	switch c.OffSign {
	case "Z":
		s += "Z"
	default:
		if c.Compact {
			s += fmt.Sprintf("%s%02d%02d", c.OffSign, c.OffH, c.OffM)
		} else {
			s += fmt.Sprintf("%s%02d:%02d", c.OffSign, c.OffH, c.OffM)
		}
	}
	return s
}

// daysFromCivil: days since 1970-01-01 of a proleptic Gregorian date (Howard Hinnant's algorithm) —
// independent of package time and of the parser under test.
func daysFromCivil(y, m, d int) int64 {
	if m <= 2 {
		y--
	}
	var era int64
	if y >= 0 {
		era = int64(y) / 400
	} else {
		era = (int64(y) - 399) / 400
	}
	yoe := int64(y) - era*400
	mp := int64((m + 9) % 12)
	doy := (153*mp+2)/5 + int64(d) - 1
	doe := yoe*365 + yoe/4 - yoe/100 + doy
	return era*146097 + doe - 719468
}

func (c ValidCase) expected() (sec int64, nsec int, offset int) {
	off := c.OffH*3600 + c.OffM*60
	if c.OffSign == "-" {
		off = -off
	}
	if c.OffSign == "Z" {
		off = 0
	}
	sec = daysFromCivil(c.Year, c.Month, c.Day)*86400 + int64(c.Hour*3600+c.Min*60+c.Sec) - int64(off)
	f := c.Frac
	for len(f) < 9 {
		f += "0"
	}
	for _, ch := range f {
		nsec = nsec*10 + int(ch-'0')
	}
	return sec, nsec, off
}

func isLeap(y int) bool { return y%4 == 0 && (y%100 != 0 || y%400 == 0) }

func daysIn(y, m int) int {
	switch m {
	case 2:
		if isLeap(y) {
			return 29
		}
		return 28
	case 4, 6, 9, 11:
		return 30
	}
	return 31
}

type env struct {
	schema base.LogSchema
	tf     base.LogTransform
	lookup btest.LookupStubCustomerCounterFunc
}

func newEnv() *env {
	schema := base.MustNewLogSchema([]string{"time", "other"})
	cfg := &tparsetime.Config{Key: "time", ErrorLabel: "timeError"}
	cfg.Type = "parseTime"
	if err := cfg.VerifyConfig(schema); err != nil {
		panic(err)
	}
	reg, lookup := btest.NewStubLogCustomCounterRegistry()
	tf := cfg.NewTransform(schema, logger.Root(), reg)
	return &env{schema, tf, lookup}
}

var sharedEnv *env // long-lived transform: the timezone cache is state that must not matter

func getEnv() *env {
	if sharedEnv == nil {
		sharedEnv = newEnv()
	}
	return sharedEnv
}

func inexactFloat(frac string) bool {
	// fraction whose decimal value is not exactly representable when assembled from per-digit float products
	return len(frac) >= 4
}

func runValid(c ValidCase) vh.Result {
	e := getEnv()
	s := c.String()
	fallback := time.Unix(1, 0)
	rec := e.schema.NewTestRecord2(fallback, base.LogFields{strings.Clone(s), "x"})
	rec.RawLength = 77
	before, _ := e.lookup("timeError")
	res := e.tf.Transform(rec)
	after, _ := e.lookup("timeError")
	r := vh.Result{NonTrivial: inexactFloat(c.Frac) || c.OffSign != "Z"}
	r.Classes = append(r.Classes, fmt.Sprintf("fraction-digits-%d", len(c.Frac)))
	if c.OffSign == "Z" {
		r.Classes = append(r.Classes, "offset-Z")
	} else if c.Compact {
		r.Classes = append(r.Classes, "offset-compact")
	} else {
		r.Classes = append(r.Classes, "offset-colon")
	}
	if res != base.PASS {
		r.Violation = vh.Fail("time:dropped", "parseTime dropped the record for %q", s)
		return r
	}
	if after != before {
		r.Violation = vh.Fail("time:valid-rejected", "valid timestamp %q counted as timeError", s)
		return r
	}
	wantSec, wantNsec, wantOff := c.expected()
	got := rec.Timestamp
	if got.Unix() != wantSec || got.Nanosecond() != wantNsec {
		key := "time:wrong-instant"
		if got.Unix() == wantSec || (got.Unix() == wantSec-1 && wantNsec == 0) {
			key = fmt.Sprintf("time:fraction-inexact-%d-digits", len(c.Frac))
		}
		r.Violation = vh.Fail(key, "%q: got %d.%09d want %d.%09d", s, got.Unix(), got.Nanosecond(), wantSec, wantNsec)
		return r
	}
	if _, off := got.Zone(); off != wantOff {
		r.Violation = vh.Fail("time:wrong-zone", "%q: zone offset got %d want %d", s, off, wantOff)
		return r
	}
	if string(rec.Fields[1]) != "x" || string(rec.Fields[0]) != s {
		r.Violation = vh.Fail("time:fields-changed", "%q: parseTime changed fields: %q", s, rec.Fields)
	}
	return r
}

var genDigit = rapid.RuneFrom([]rune("0123456789"))

func genValid(t *rapid.T) ValidCase {
	var c ValidCase
	c.Year = rapid.OneOf(rapid.IntRange(0, 9999), rapid.IntRange(1969, 2040), rapid.SampledFrom([]int{0, 1, 1600, 1900, 1970, 2000, 2038, 2100, 9999})).Draw(t, "year")
	c.Month = rapid.IntRange(1, 12).Draw(t, "month")
	c.Day = rapid.IntRange(1, daysIn(c.Year, c.Month)).Draw(t, "day")
	c.Hour = rapid.IntRange(0, 23).Draw(t, "hour")
	c.Min = rapid.IntRange(0, 59).Draw(t, "min")
	c.Sec = rapid.IntRange(0, 59).Draw(t, "sec")
	nd := rapid.IntRange(0, 9).Draw(t, "fracDigits")
	if nd > 0 {
		c.Frac = rapid.OneOf(
			rapid.StringOfN(genDigit, nd, nd, -1),
			rapid.Map(rapid.IntRange(0, nd-1), func(k int) string { return strings.Repeat("9", nd-k) + strings.Repeat("0", k) }),
			rapid.Map(rapid.IntRange(0, nd-1), func(k int) string { return strings.Repeat("0", nd-k-1) + "1" + strings.Repeat("0", k) }),
		).Draw(t, "frac")
	}
	c.OffSign = rapid.SampledFrom([]string{"Z", "+", "-"}).Draw(t, "sign")
	if c.OffSign != "Z" {
		c.OffH = rapid.IntRange(0, 23).Draw(t, "offH")
		c.OffM = rapid.IntRange(0, 59).Draw(t, "offM")
		c.Compact = rapid.Bool().Draw(t, "compact")
	}
	return c
}

// enumFractions enumerates exhaustively all fractions of 1..maxDigits digits on fixed dates.
func enumFractions(maxDigits int) func(func(ValidCase) bool) {
	return func(yield func(ValidCase) bool) {
		base := ValidCase{Year: 2019, Month: 8, Day: 15, Hour: 15, Min: 50, Sec: 46, OffSign: "+", OffH: 3, OffM: 0}
		for nd := 1; nd <= maxDigits; nd++ {
			limit := 1
			for i := 0; i < nd; i++ {
				limit *= 10
			}
			for v := 0; v < limit; v++ {
				c := base
				c.Frac = fmt.Sprintf("%0*d", nd, v)
				if nd%2 == 0 {
					c.OffSign = "Z"
				}
				if !yield(c) {
					return
				}
			}
		}
		// every calendar day of some years with no fraction (date arithmetic), and every offset
		for _, y := range []int{0, 1, 1900, 1970, 2000, 2024, 2038, 9999} {
			for m := 1; m <= 12; m++ {
				for d := 1; d <= daysIn(y, m); d++ {
					c := ValidCase{Year: y, Month: m, Day: d, Hour: 23, Min: 59, Sec: 59, OffSign: "Z"}
					if !yield(c) {
						return
					}
				}
			}
		}
		for _, sign := range []string{"+", "-"} {
			for h := 0; h < 24; h++ {
				for m := 0; m < 60; m++ {
					for _, compact := range []bool{false, true} {
						c := ValidCase{Year: 2024, Month: 2, Day: 29, Hour: 0, Min: 0, Sec: 0, Frac: "5", OffSign: sign, OffH: h, OffM: m, Compact: compact}
						if !yield(c) {
							return
						}
					}
				}
			}
		}
	}
}

func TestC13Valid(t *testing.T) {
	digits := 6
	vh.Run(t, vh.Spec[ValidCase]{
		Name: "valid", Gen: genValid, Run: runValid, Quick: 60000, Thorough: 600000,
		Enum: enumFractions(digits), EnumOnlyShard0: true,
		Rule: "valid RFC 3339 stamps built from components (exhaustive over all fractions of 1..6 digits, all days of 8 years, all offsets in both forms, plus rapid draws over year 0..9999, 0-9 fraction digits); oracle = instant computed arithmetically from the components; non-trivial = fraction of >=4 digits (float assembly inexact) or a numeric offset",
	})
}

// ---------------------------------------------------------------------------
// total domain: arbitrary strings

type TotalCase struct {
	S string
}

func shapedLikeDate(s string) bool {
	if len(s) < 19 {
		return false
	}
	return s[4] == '-' && s[7] == '-' && s[10] == 'T' && s[13] == ':' && s[16] == ':'
}

func runTotal(c TotalCase) vh.Result {
	e := getEnv()
	r := vh.Result{}
	shaped := shapedLikeDate(c.S)
	r.NonTrivial = len(c.S) < 19 || !shaped
	if len(c.S) < 19 {
		r.Classes = append(r.Classes, "shorter-than-19")
	} else if !shaped {
		r.Classes = append(r.Classes, "wrong-separator")
	} else {
		r.Classes = append(r.Classes, "date-shaped")
	}
	if c.S == "" {
		// the transform treats the empty value as "field absent" (schema rule); function-level totality is checked below
		r.Classes = append(r.Classes, "empty")
	}
	fallback := time.Unix(1234567, 89)
	rec := e.schema.NewTestRecord2(fallback, base.LogFields{strings.Clone(c.S), "x"})
	rec.RawLength = 55
	bc, bl := e.lookup("timeError")
	var res base.FilterResult
	if pf := vh.Protect(func() { res = e.tf.Transform(rec) }); pf != nil {
		// classify: the NIL/short value class vs anything else
		if len(c.S) < 19 {
			pf.Key = "time:panic-on-short-string"
		} else {
			pf.Key = "time:panic:" + pf.Key
		}
		r.Violation = pf
		return r
	}
	ac, al := e.lookup("timeError")
	if res != base.PASS {
		r.Violation = vh.Fail("time:dropped", "parseTime dropped the record for %q", c.S)
		return r
	}
	if c.S != "" && !shaped {
		if ac != bc+1 || al != bl+55 {
			r.Violation = vh.Fail("time:unshaped-not-counted", "%q is not date-shaped but timeError went %d->%d (bytes %d->%d)", c.S, bc, ac, bl, al)
			return r
		}
		if !rec.Timestamp.Equal(fallback) {
			r.Violation = vh.Fail("time:unshaped-overwrote-fallback", "%q is not date-shaped but Timestamp changed to %v", c.S, rec.Timestamp)
			return r
		}
	} else if ac != bc {
		// date-shaped but rejected: allowed; then the fallback must be untouched
		if !rec.Timestamp.Equal(fallback) {
			r.Violation = vh.Fail("time:rejected-overwrote-fallback", "%q was counted as error but Timestamp changed to %v", c.S, rec.Timestamp)
			return r
		}
	}
	if c.S == "" && (ac != bc || !rec.Timestamp.Equal(fallback)) {
		r.Violation = vh.Fail("time:empty-field-touched", "empty field: counter %d->%d ts=%v", bc, ac, rec.Timestamp)
	}
	return r
}

var validSample = "2019-08-15T15:50:46.866915+03:00"

func genTotal(t *rapid.T) TotalCase {
	kind := rapid.IntRange(0, 6).Draw(t, "kind")
	switch kind {
	case 0: // arbitrary string
		return TotalCase{rapid.String().Draw(t, "s")}
	case 1: // arbitrary bytes
		return TotalCase{string(rapid.SliceOfN(rapid.Byte(), 0, 40).Draw(t, "b"))}
	case 2: // prefix of a valid stamp
		v := genValid(t).String()
		n := rapid.IntRange(0, len(v)).Draw(t, "cut")
		return TotalCase{v[:n]}
	case 3: // valid stamp with one byte replaced
		v := []byte(genValid(t).String())
		i := rapid.IntRange(0, len(v)-1).Draw(t, "pos")
		v[i] = rapid.Byte().Draw(t, "byte")
		return TotalCase{string(v)}
	case 4: // valid stamp with junk suffix / zone
		v := genValid(t).String()
		cut := rapid.IntRange(19, len(v)).Draw(t, "cut")
		return TotalCase{v[:cut] + rapid.StringMatching(`[-+Z.:0-9a-z ]{0,12}`).Draw(t, "suffix")}
	case 5: // NIL and friends
		return TotalCase{rapid.SampledFrom([]string{"-", "", " ", "--", "T", "Z", "0", "2019", "2019-08-15", "2019-08-15T15:50", "2019-08-15 15:50:46Z", "2019/08/15T15:50:46Z", "2019-08-15t15:50:46z"}).Draw(t, "nil")}
	default: // valid stamp with one byte inserted or deleted
		v := genValid(t).String()
		i := rapid.IntRange(0, len(v)-1).Draw(t, "pos")
		if rapid.Bool().Draw(t, "del") {
			return TotalCase{v[:i] + v[i+1:]}
		}
		return TotalCase{v[:i] + string(rune(rapid.IntRange(32, 126).Draw(t, "ins"))) + v[i:]}
	}
}

func enumTotal(yield func(TotalCase) bool) {
	// every proper prefix of valid stamps, every single-separator corruption
	for _, v := range []string{validSample, "2020-09-17T16:51:47.867Z", "2022-02-07T10:30:45+0200", "2022-02-07T10:30:45Z"} {
		for n := 0; n <= len(v); n++ {
			if !yield(TotalCase{v[:n]}) {
				return
			}
		}
		for _, pos := range []int{4, 7, 10, 13, 16} {
			for _, ch := range []byte{' ', 'x', '0', '/', 't', '.', 0, 0xff} {
				b := []byte(v)
				b[pos] = ch
				if !yield(TotalCase{string(b)}) {
					return
				}
			}
		}
	}
	// all strings of length 0..2 over a small alphabet
	alpha := []string{"-", "0", "T", ":", "Z", " ", "\xff"}
	if !yield(TotalCase{""}) {
		return
	}
	for _, a := range alpha {
		if !yield(TotalCase{a}) {
			return
		}
		for _, b := range alpha {
			if !yield(TotalCase{a + b}) {
				return
			}
		}
	}
}

func TestC13Total(t *testing.T) {
	vh.Run(t, vh.Spec[TotalCase]{
		Name: "total", Gen: genTotal, Run: runTotal, Quick: 40000, Thorough: 400000,
		Enum: enumTotal, EnumOnlyShard0: true,
		Rule: "arbitrary strings (raw bytes, prefixes / one-byte edits / junk suffixes of valid stamps, NIL values); oracle = no panic, not-date-shaped (len<19 or wrong separator) => timeError +1 with the record length and Timestamp untouched; non-trivial = string not shaped like a date-time",
	})
}
