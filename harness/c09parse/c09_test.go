// C09 — syslog header parsing is faithful and every message is accounted for.
package c09parse

import (
	"bytes"
	"fmt"
	"strconv"
	"strings"
	"testing"
	"time"
	"unicode/utf8"

	"github.com/relex/gotils/logger"
	"github.com/relex/gotils/promexporter/promreg"
	"github.com/relex/slog-agent/base"
	"github.com/relex/slog-agent/defs"
	"github.com/relex/slog-agent/input/sysloginput"
	"github.com/relex/slog-agent/input/syslogprotocol"
	"github.com/relex/slog-agent/util"
	"pgregory.net/rapid"

	"verifharness/vh"
)

func init() { vh.QuietLogs(logger.ErrorLevel) }

type Case struct {
	Line     vh.SyslogLine `json:"line"`
	Mapping  []string      `json:"mapping"`
	MaxMsg   int           `json:"maxMsg"`   // defs.InputLogMaxMessageBytes for this case (production: 1 MiB)
	Warmup   int           `json:"warmup"`   // number of other records parsed before on the same parser (pool reuse)
	Expect   string        `json:"expect"`   // "valid" | "any"  (valid = well-formed by construction, field oracle applies)
	Raw      *[]byte       `json:"raw,omitempty"` // if set: the input is exactly these bytes (empty, blank, a few arbitrary bytes) instead of the rendered line; Expect = "any"
}

var facilityNames = []string{"kern", "user", "mail", "daemon", "auth", "syslog", "lpr", "news", "uucp", "cron", "authpriv", "ftp", "ntp", "audit", "alert", "clock",
	"local0", "local1", "local2", "local3", "local4", "local5", "local6", "local7"} // RFC 5424 table 1 with the names documented by the agent

type env struct {
	parser  base.LogParser
	counter *base.LogInputCounterSet
	mf      *promreg.MetricFactory
	schema  base.LogSchema
	mapping string
	maxMsg  int
}

var cur *env

func getEnv(mapping []string, maxMsg int) *env {
	key := strings.Join(mapping, "\x00")
	if cur != nil && cur.mapping == key && cur.maxMsg == maxMsg {
		return cur
	}
	defs.InputLogMaxMessageBytes = maxMsg
	defs.InputLogMaxRecordBytes = maxMsg + 256
	schema := base.MustNewLogSchema([]string{"facility", "level", "time", "host", "app", "pid", "source", "extradata", "log", "scratch"})
	alloc := base.NewLogAllocator(schema, 1)
	mf := promreg.NewMetricFactory("c09_", nil, nil)
	counter := base.NewLogInputCounter(mf)
	cfg := &sysloginput.Config{}
	yml := "type: syslog\naddress: localhost:0\nlevelMapping: [" + quoteList(mapping) + "]\nextractions:\n  - type: delFields\n    keys: [scratch]\n  - type: drop\n    match:\n      app: " + dropApp + "\n    percentage: 100\n    metricLabel: unwantedapp\n"
	if err := util.UnmarshalYamlString(yml, cfg); err != nil {
		panic(err)
	}
	if err := cfg.VerifyConfig(schema); err != nil {
		panic(err)
	}
	p, err := cfg.NewParser(logger.Root(), alloc, schema, counter)
	if err != nil {
		panic(err)
	}
	cur = &env{p, counter, mf, schema, key, maxMsg}
	return cur
}

func quoteList(l []string) string {
	q := make([]string, len(l))
	for i, s := range l {
		q[i] = strconv.Quote(s)
	}
	return strings.Join(q, ", ")
}

type counts struct{ passed, dropped, passedB, droppedB, overflow, overflowB float64 }

func (e *env) snapshot() counts {
	e.counter.UpdateMetrics()
	m := vh.Gather(e.mf)
	return counts{
		m.Sum("c09_passed_records_total"), m.Sum("c09_dropped_records_total"),
		m.Sum("c09_passed_record_bytes_total"), m.Sum("c09_dropped_record_bytes_total"),
		m.Sum("c09_labelled_records_total", "label=overflow"), m.Sum("c09_labelled_record_bytes_total", "label=overflow"),
	}
}

// records of this app are dropped by a rule among the input extractions (after the parser has accepted them)
const dropApp = "unwanted-app"

var warmLine = []byte("<13>1 2020-01-01T00:00:00Z warmhost warmapp 99 warmid [sd] warm message that is long enough")

func isDecimalPri(s string) (int, bool) {
	if len(s) == 0 || len(s) > 3 || (len(s) > 1 && s[0] == '0') {
		return 0, false
	}
	v := 0
	for _, c := range s {
		if c < '0' || c > '9' {
			return 0, false
		}
		v = v*10 + int(c-'0')
	}
	return v, v <= 191
}

// longest prefix of s with at most n bytes that ends on a rune boundary (s is valid UTF-8)
func runePrefix(s []byte, n int) []byte {
	if len(s) <= n {
		return s
	}
	for n > 0 && !utf8.RuneStart(s[n]) {
		n--
	}
	return s[:n]
}

func run(c Case) vh.Result {
	e := getEnv(c.Mapping, c.MaxMsg)
	for i := 0; i < c.Warmup; i++ {
		if r := e.parser.Parse(warmLine, time.Unix(5, 0)); r != nil {
			_ = r
		}
	}
	input := c.Line.Bytes()
	if c.Raw != nil {
		input = append([]byte(nil), (*c.Raw)...)
	}
	orig := append([]byte(nil), input...)
	msg := vh.Expand(c.Line.Msg)
	res := vh.Result{}
	before := e.snapshot()
	ts := time.Unix(1600000000, 123)
	rec := e.parser.Parse(input, ts)
	after := e.snapshot()

	priVal, priOK := isDecimalPri(c.Line.Pri)
	wellFormed := c.Raw == nil && c.Expect == "valid" && priOK && c.Line.Ver == "1" && len(input) >= 32
	if c.Raw != nil {
		priOK = true // the PRI-specific checks below are about rendered lines
		res.Classes = append(res.Classes, "raw-short-input")
		if len(input) == 0 {
			res.Classes = append(res.Classes, "empty-input")
		}
	}
	limit := c.MaxMsg
	nearLimit := len(msg) >= limit-4 && len(msg) <= limit+4
	res.NonTrivial = nearLimit || (priOK && (priVal%8 == 0 || priVal%8 == 7 || priVal >= 184)) || !wellFormed
	if wellFormed {
		res.Classes = append(res.Classes, "well-formed")
	} else {
		res.Classes = append(res.Classes, "not-well-formed")
	}
	if len(msg) > limit {
		res.Classes = append(res.Classes, "message-over-limit")
	}
	if nearLimit {
		res.Classes = append(res.Classes, "message-within-4-of-limit")
	}
	if len(input) >= c.MaxMsg+256 {
		res.Classes = append(res.Classes, "record-over-record-limit")
	}
	if len(input) < 32 {
		res.Classes = append(res.Classes, "shorter-than-32")
	}
	if c.MaxMsg == 1<<20 {
		res.Classes = append(res.Classes, "production-limits")
	}

	// the caller's buffer must not be modified (it is the listener's line buffer)
	if !bytes.Equal(input, orig) {
		res.Violation = vh.Fail("parse:input-modified", "Parse modified its input buffer")
		return res
	}
	// accounting: exactly one of passed/dropped, with the byte length
	dp, dd := after.passed-before.passed, after.dropped-before.dropped
	dpb, ddb := after.passedB-before.passedB, after.droppedB-before.droppedB
	if dp+dd != 1 || dpb+ddb != float64(len(input)) || (dp == 1) != (dpb > 0 || len(input) == 0) && len(input) > 0 {
		res.Violation = vh.Fail("parse:accounting", "input of %d bytes: passed %+v dropped %+v passedBytes %+v droppedBytes %+v", len(input), dp, dd, dpb, ddb)
		return res
	}
	if (rec != nil) != (dp == 1) {
		res.Violation = vh.Fail("parse:accounting-vs-result", "record returned=%v but passed delta=%v", rec != nil, dp)
		return res
	}
	if !wellFormed {
		if len(input) < 32 && rec != nil {
			res.Violation = vh.Fail("parse:short-accepted", "line of %d bytes accepted", len(input))
		}
		if priOK == false && rec != nil && c.Line.Ver == "1" {
			// an out-of-range / non-decimal PRI must not yield facility names outside the table; accepted forms (e.g. +5, 007) are tolerated
			fac := string(rec.Fields[0])
			ok := false
			for _, f := range facilityNames {
				if f == fac {
					ok = true
				}
			}
			if !ok {
				res.Violation = vh.Fail("parse:bogus-facility", "PRI %q accepted with facility %q", c.Line.Pri, fac)
			}
			if v, err := strconv.Atoi(c.Line.Pri); err == nil && (v > 191 || v < 0) {
				res.Violation = vh.Fail("parse:out-of-range-pri-accepted", "PRI %q accepted", c.Line.Pri)
			}
		}
		return res
	}
	if string(c.Line.App) == dropApp {
		// dropped by the rule among the input extractions: counted as dropped (checked above), nothing returned
		res.Classes = append(res.Classes, "dropped-by-an-input-extraction")
		if rec != nil {
			res.Violation = vh.Fail("parse:extraction-drop-ignored", "a record of app %q was returned although the drop rule among the extractions matches it", dropApp)
		}
		return res
	}
	if rec == nil {
		res.Violation = vh.Fail("parse:valid-rejected", "well-formed line rejected: %.120q", input)
		return res
	}
	get := func(name string) string {
		loc := e.schema.MustCreateFieldLocator(name)
		return string(loc.Get(rec.Fields))
	}
	exp := map[string]string{
		"facility": facilityNames[priVal>>3], "level": c.Mapping[priVal&7],
		"time": string(c.Line.Time), "host": string(c.Line.Host), "app": string(c.Line.App),
		"pid": string(c.Line.Pid), "source": string(c.Line.MsgID), "extradata": string(c.Line.SD), "scratch": "",
	}
	for _, name := range []string{"facility", "level", "time", "host", "app", "pid", "source", "extradata", "scratch"} {
		if got := get(name); got != exp[name] {
			res.Violation = vh.Fail("parse:field-"+name, "field %s: got %.80q want %.80q (line %.100q)", name, got, exp[name], input)
			return res
		}
	}
	if syslogprotocol.FacilityNames[priVal>>3] != facilityNames[priVal>>3] {
		res.Violation = vh.Fail("parse:facility-table", "facility table entry %d is %q", priVal>>3, syslogprotocol.FacilityNames[priVal>>3])
		return res
	}
	if rec.RawLength != len(input) {
		res.Violation = vh.Fail("parse:rawlength", "RawLength %d want %d", rec.RawLength, len(input))
		return res
	}
	if !rec.Timestamp.Equal(ts) {
		res.Violation = vh.Fail("parse:timestamp", "receive time not kept")
		return res
	}
	got := []byte(get("log"))
	validMsg := utf8.Valid(msg)
	dOver, dOverB := after.overflow-before.overflow, after.overflowB-before.overflowB
	if len(msg) > limit {
		if dOver != 1 || dOverB != float64(len(input)) {
			res.Violation = vh.Fail("parse:overflow-not-counted", "message of %d bytes (limit %d): overflow counter delta %v bytes %v", len(msg), limit, dOver, dOverB)
			return res
		}
		if len(got) > limit {
			res.Violation = vh.Fail("parse:overflow-not-cut", "message of %d bytes (limit %d) cut to %d", len(msg), limit, len(got))
			return res
		}
		if validMsg {
			want := runePrefix(msg, limit)
			if !bytes.Equal(got, want) {
				key := "parse:overflow-wrong-cut"
				if !utf8.Valid(got) && bytes.HasPrefix(msg, got) {
					key = "parse:overflow-cut-inside-rune"
				}
				res.Violation = vh.Fail(key, "message of %d bytes (limit %d): got %d bytes ending %q, want %d bytes ending %q", len(msg), limit, len(got), tailOf(got), len(want), tailOf(want))
				return res
			}
		}
		// (for a message that is not valid UTF-8 the documented clean-up may remove invalid bytes anywhere in the
		// non-ASCII tail, so only the length bound and the overflow count are checked)
	} else {
		if dOver != 0 {
			res.Violation = vh.Fail("parse:overflow-miscounted", "message of %d bytes (limit %d) counted as overflow", len(msg), limit)
			return res
		}
		if validMsg || len(input) < c.MaxMsg+256 {
			if !bytes.Equal(got, msg) {
				res.Violation = vh.Fail("parse:message", "message differs: got %d bytes ending %q want %d bytes ending %q", len(got), tailOf(got), len(msg), tailOf(msg))
				return res
			}
		}
	}
	if rec.Unescaped != bytes.Contains(got, []byte("\n")) {
		res.Violation = vh.Fail("parse:unescaped-flag", "Unescaped=%v for message with newline=%v", rec.Unescaped, bytes.Contains(got, []byte("\n")))
		return res
	}
	return res
}

func tailOf(b []byte) string {
	if len(b) > 12 {
		b = b[len(b)-12:]
	}
	return string(b)
}

var genMappings = rapid.SampledFrom([][]string{
	{"off", "fatal", "crit", "error", "warn", "notice", "info", "debug"},
	{"emerg", "alert", "crit", "err", "warn", "notice", "info", "debug"},
	{"L0", "L1", "L2", "L3", "L4", "L5", "L6", "L7"},
	{"a", "a", "b", "b", "c", "c", "d", "e"},
})

func genLimit(t *rapid.T) int {
	if vh.Tier == "thorough" {
		return rapid.SampledFrom([]int{64, 200, 1000, 1 << 20, 1 << 20}).Draw(t, "maxMsg")
	}
	if rapid.IntRange(0, 99).Draw(t, "prod") == 57 {
		return 1 << 20
	}
	return rapid.SampledFrom([]int{64, 200, 1000, 1000}).Draw(t, "maxMsg")
}

func genValidLine(t *rapid.T, limit int) vh.SyslogLine {
	var l vh.SyslogLine
	l.Pri = vh.GenValidPri.Draw(t, "pri")
	l.Ver = "1"
	if rapid.IntRange(0, 3).Draw(t, "timeKind") == 0 {
		l.Time = vh.GenToken(0, 40).Draw(t, "time")
	} else {
		l.Time = []byte(rapid.SampledFrom(vh.ValidTimes).Draw(t, "time"))
	}
	maxTok := 60
	if rapid.IntRange(0, 19).Draw(t, "bigHeader") == 0 {
		maxTok = 300 // header alone can exceed the 256 bytes of slack
	}
	l.Host = vh.GenToken(0, maxTok).Draw(t, "host")
	l.App = vh.GenToken(0, maxTok).Draw(t, "app")
	if rapid.IntRange(0, 9).Draw(t, "dropApp") == 0 {
		l.App = []byte(dropApp)
	}
	l.Pid = vh.GenToken(0, 20).Draw(t, "pid")
	l.MsgID = vh.GenToken(0, maxTok).Draw(t, "msgid")
	l.SD = vh.GenToken(0, maxTok).Draw(t, "sd")
	switch rapid.IntRange(0, 5).Draw(t, "msgKind") {
	case 0, 1: // around the message limit
		l.Msg = vh.GenMsgAround(limit, 6, rapid.Bool().Draw(t, "inv"), true).Draw(t, "msg")
	case 2: // around the record limit
		l.Msg = vh.GenMsgAround(limit+256-l.HeaderLen(), 6, false, true).Draw(t, "msg")
	case 3: // far beyond
		l.Msg = vh.GenMsgAround(limit*3, limit, rapid.Bool().Draw(t, "inv"), true).Draw(t, "msg")
	default: // short
		l.Msg = vh.GenMsgAround(20, 20, rapid.Bool().Draw(t, "inv"), true).Draw(t, "msg")
	}
	return l
}

func gen(t *rapid.T) Case {
	c := Case{Mapping: genMappings.Draw(t, "mapping"), MaxMsg: genLimit(t), Warmup: rapid.IntRange(0, 2).Draw(t, "warmup"), Expect: "valid"}
	c.Line = genValidLine(t, c.MaxMsg)
	if rapid.IntRange(0, 19).Draw(t, "raw") == 0 {
		// what the reader can hand over besides records: nothing at all, blanks, a few arbitrary bytes
		raw := rapid.OneOf(rapid.SampledFrom([][]byte{{}, {}, []byte(" "), []byte("\n"), []byte("<"), []byte("<13>"), []byte("<13>1"), []byte("\x00")}), rapid.SliceOfN(rapid.Byte(), 0, 40)).Draw(t, "rawBytes")
		c.Raw, c.Expect = &raw, "any"
		return c
	}
	if rapid.IntRange(0, 4).Draw(t, "mutate") == 0 {
		c.Expect = "any"
		switch rapid.IntRange(0, 4).Draw(t, "mutKind") {
		case 0:
			c.Line.Pri = rapid.SampledFrom([]string{"", "192", "199", "999", "1000", "-1", "-0", "+5", "007", "0x1", "1a", " 1", "99999999999999999999", "٣"}).Draw(t, "badPri")
		case 1:
			c.Line.Ver = rapid.SampledFrom([]string{"", "2", "11", "x"}).Draw(t, "badVer")
		case 2: // truncated line: drop the message and some tokens (no trailing space)
			b := c.Line.Bytes()
			n := rapid.IntRange(0, min(len(b), 80)).Draw(t, "trunc")
			c.Line = vh.SyslogLine{Pri: c.Line.Pri, Ver: "1"}
			_ = b
			_ = n
			c.Line.Msg = nil
		case 3:
			c.Line.Msg = []vh.Seg{{Raw: []byte("m"), Rep: rapid.IntRange(0, 8).Draw(t, "tiny")}}
			c.Line.Host, c.Line.App, c.Line.MsgID, c.Line.SD, c.Line.Pid, c.Line.Time = []byte("h"), []byte("a"), []byte("-"), []byte("-"), []byte("1"), []byte("-")
		default:
			c.Line.Pri = strconv.Itoa(rapid.IntRange(192, 100000).Draw(t, "bigPri"))
		}
	}
	return c
}

// enumPri: every PRI 0..191 under every mapping, plus the first out-of-range values, on a fixed line.
func enumPri(yield func(Case) bool) {
	mappings := [][]string{
		{"off", "fatal", "crit", "error", "warn", "notice", "info", "debug"},
		{"L0", "L1", "L2", "L3", "L4", "L5", "L6", "L7"},
	}
	// the empty input and other very short ones, several times in a row (nothing else is counted in between)
	for rep := 0; rep < 3; rep++ {
		for _, r := range []string{"", "", " ", "\n", "<", "<13>1 -"} {
			raw := []byte(r)
			if !yield(Case{Mapping: mappings[0], MaxMsg: 1000, Expect: "any", Raw: &raw}) {
				return
			}
		}
	}
	for _, m := range mappings {
		for pri := 0; pri <= 200; pri++ {
			c := Case{Mapping: m, MaxMsg: 1000, Expect: "valid"}
			c.Line = vh.SyslogLine{Pri: strconv.Itoa(pri), Ver: "1", Time: []byte(vh.ValidTimes[0]), Host: []byte("host"), App: []byte("app"), Pid: []byte("12"), MsgID: []byte("id"), SD: []byte("-"),
				Msg: []vh.Seg{{Raw: []byte("hello world"), Rep: 1}}}
			if pri > 191 {
				c.Expect = "any"
			}
			if !yield(c) {
				return
			}
		}
	}
	// every message length limit-8 .. limit+8 with each rune width at each alignment, short header (record below the record limit)
	for _, unit := range []string{"x", "é", "€", "😀"} {
		for shift := 0; shift < 4; shift++ {
			for d := -8; d <= 8; d++ {
				limit := 200
				total := limit + d
				rep := (total - shift) / len(unit)
				pad := total - shift - rep*len(unit)
				c := Case{Mapping: mappings[0], MaxMsg: limit, Expect: "valid"}
				c.Line = vh.SyslogLine{Pri: "13", Ver: "1", Time: []byte("-"), Host: []byte("h"), App: []byte("a"), Pid: []byte("-"), MsgID: []byte("-"), SD: []byte("-"),
					Msg: []vh.Seg{{Raw: []byte("abc")[:shift], Rep: 1}, {Raw: []byte(unit), Rep: rep}, {Raw: []byte("z"), Rep: pad}}}
				if !yield(c) {
					return
				}
			}
		}
	}
}

func TestC09Parse(t *testing.T) {
	vh.Run(t, vh.Spec[Case]{
		Name: "parse", Gen: gen, Run: run, Quick: 30000, Thorough: 300000, Enum: enumPri, EnumOnlyShard0: true,
		Rule: "lines built from components (PRI exhaustively 0..200 under 2 mappings; message lengths limit-8..limit+8 for every rune width and alignment; rapid: tokens of arbitrary bytes without space, messages around the message and record limits at scaled (64/200/1000) and production (1 MiB) limits, mutated PRI/version/short lines); oracle = fields equal the generated components, cut = longest rune-aligned prefix <= limit + overflow counted, passed+dropped grows by exactly one with the byte length; non-trivial = message within 4 bytes of the limit, PRI at a class boundary, or a not-well-formed line",
	})
}

var _ = fmt.Sprintf
