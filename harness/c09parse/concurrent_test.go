package c09parse

// C09, accounting with several connections: every connection of an input gets its own sink (own parser, own counter
// set) from the real LogParsingReceiver and runs in its own goroutine, as tcpLineListener.runConnection does. "Every
// message handed to the parser is counted exactly once, with its byte length, as passed or dropped" must hold for the
// input's metrics as a whole, whatever the connections do at the same time.

import (
	"fmt"
	"sync"
	"sync/atomic"
	"testing"

	"github.com/relex/gotils/logger"
	"github.com/relex/gotils/promexporter/promreg"
	"github.com/relex/slog-agent/base"
	"github.com/relex/slog-agent/base/bsupport"
	"github.com/relex/slog-agent/defs"
	"github.com/relex/slog-agent/input/sysloginput"
	"github.com/relex/slog-agent/util"
	"pgregory.net/rapid"

	"verifharness/vh"
)

type ConnLoad struct {
	Lines      int `json:"lines"`      // number of messages
	BadEvery   int `json:"badEvery"`   // every n-th message is malformed (0 = none)
	FlushEvery int `json:"flushEvery"` // Flush() after this many messages
	MsgLen     int `json:"msgLen"`
}

type ConcCase struct {
	Conns []ConnLoad `json:"conns"`
}

type releasingReceiver struct {
	alloc    *base.LogAllocator
	received *atomic.Int64
}

type releasingSink struct{ r *releasingReceiver }

func (r *releasingReceiver) NewSink(string, base.ClientNumber) base.BufferReceiverSink {
	return releasingSink{r}
}
func (s releasingSink) Accept(buffer []*base.LogRecord) {
	for _, rec := range buffer {
		s.r.alloc.Release(rec)
	}
	s.r.received.Add(int64(len(buffer)))
}
func (s releasingSink) Tick()  {}
func (s releasingSink) Close() {}

func runConcurrent(c ConcCase) vh.Result {
	res := vh.Result{}
	defs.InputLogMaxMessageBytes = 1 << 20
	defs.InputLogMaxRecordBytes = 1<<20 + 256
	cur = nil
	schema := base.MustNewLogSchema([]string{"facility", "level", "time", "host", "app", "pid", "source", "extradata", "log", "scratch"})
	alloc := base.NewLogAllocator(schema, 1)
	mf := promreg.NewMetricFactory("c09c_", nil, nil)
	cfg := &sysloginput.Config{}
	yml := "type: syslog\naddress: localhost:0\nlevelMapping: [off, fatal, crit, error, warn, notice, info, debug]\nextractions:\n  - type: delFields\n    keys: [scratch]\n"
	if err := util.UnmarshalYamlString(yml, cfg); err != nil {
		panic(err)
	}
	createParser := func(parentLogger logger.Logger, inputCounter *base.LogInputCounterSet) base.LogParser {
		p, err := cfg.NewParser(parentLogger, alloc, schema, inputCounter)
		if err != nil {
			panic(err)
		}
		return p
	}
	next := &releasingReceiver{alloc: alloc, received: &atomic.Int64{}}
	recv := bsupport.NewLogParsingReceiver(logger.Root(), createParser, next, mf.AddOrGetPrefix("input_", []string{"protocol"}, []string{"syslog"}))

	var wantPass, wantDrop, wantPassB, wantDropB int64
	var wg sync.WaitGroup
	start := make(chan struct{})
	for ci, load := range c.Conns {
		good := []byte(fmt.Sprintf("<%d>1 2020-01-02T03:04:05.678Z host%d app%d %d src - %s", 8+ci%8, ci, ci, 100+ci, string(make([]byte, 0))))
		for len(good) < 60+load.MsgLen {
			good = append(good, byte('a'+ci%26))
		}
		bad := []byte(fmt.Sprintf("<%d>1 2020-01-02T03:04:05.678Z__no_more_fields_on_connection_%d", 8+ci%8, ci))
		for i := 0; i < load.Lines; i++ {
			if load.BadEvery > 0 && i%load.BadEvery == load.BadEvery-1 {
				wantDrop++
				wantDropB += int64(len(bad))
			} else {
				wantPass++
				wantPassB += int64(len(good))
			}
		}
		wg.Add(1)
		go func(ci int, load ConnLoad) {
			defer wg.Done()
			sink := recv.NewSink(fmt.Sprintf("conn%d", ci), base.ClientNumber(ci+1))
			<-start
			line := make([]byte, 0, len(good)+len(bad))
			for i := 0; i < load.Lines; i++ {
				src := good
				if load.BadEvery > 0 && i%load.BadEvery == load.BadEvery-1 {
					src = bad
				}
				line = append(line[:0], src...) // the listener hands over a slice of its own buffer
				sink.Accept(line)
				if i%load.FlushEvery == load.FlushEvery-1 {
					sink.Flush()
				}
			}
			sink.Flush()
			sink.Close()
		}(ci, load)
	}
	close(start)
	wg.Wait()
	m := vh.Gather(mf)
	pass, drop := int64(m.Sum("c09c_input_passed_records_total")), int64(m.Sum("c09c_input_dropped_records_total"))
	passB, dropB := int64(m.Sum("c09c_input_passed_record_bytes_total")), int64(m.Sum("c09c_input_dropped_record_bytes_total"))
	res.NonTrivial = len(c.Conns) >= 2
	res.Classes = append(res.Classes, fmt.Sprintf("connections-%d", len(c.Conns)))
	if pass != wantPass || drop != wantDrop || passB != wantPassB || dropB != wantDropB {
		res.Violation = vh.Fail("parse:concurrent-accounting", "%d connections handed %d well-formed (%d bytes) and %d malformed (%d bytes) messages to their parsers at the same time; the input counters show passed %d (%d bytes), dropped %d (%d bytes)", len(c.Conns), wantPass, wantPassB, wantDrop, wantDropB, pass, passB, drop, dropB)
		return res
	}
	if got := next.received.Load(); got != wantPass {
		res.Violation = vh.Fail("parse:concurrent-records-lost", "%d well-formed messages, %d records handed on", wantPass, got)
	}
	return res
}

func genConcurrent(t *rapid.T) ConcCase {
	var c ConcCase
	n := rapid.IntRange(2, 8).Draw(t, "conns")
	for i := 0; i < n; i++ {
		c.Conns = append(c.Conns, ConnLoad{
			Lines:      rapid.IntRange(2000, 12000).Draw(t, "lines"),
			BadEvery:   rapid.SampledFrom([]int{0, 2, 3, 10}).Draw(t, "badEvery"),
			FlushEvery: rapid.SampledFrom([]int{1, 7, 100, 1000}).Draw(t, "flushEvery"),
			MsgLen:     rapid.SampledFrom([]int{0, 40, 300, 1500}).Draw(t, "msgLen"),
		})
	}
	return c
}

func TestC09Concurrent(t *testing.T) {
	vh.Run(t, vh.Spec[ConcCase]{
		Name: "concurrent-connections", Gen: genConcurrent, Run: runConcurrent, Quick: 40, Thorough: 600, ShrinkSeconds: 10,
		Rule: "2-8 goroutines, each with its own sink of one real LogParsingReceiver (real syslog parser + extractions per sink, shared allocator), hand 2000-12000 messages each to their parsers at the same time (every 2nd/3rd/10th malformed or none, Flush after every 1/7/100/1000 messages, messages of 60-1560 bytes); oracle: after all sinks are closed the input's passed/dropped record and byte counters equal the numbers handed over exactly, and every well-formed message was handed on; non-trivial = at least two connections (always)",
	})
}
