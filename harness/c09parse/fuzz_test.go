package c09parse

import (
	"testing"

	"verifharness/vh"
)

// FuzzParse: coverage-guided exploration of the structured record generator with the parse oracle (thorough tier).
func FuzzParse(f *testing.F) { vh.FuzzSpec(f, gen, run) }
