package c09parse

// C09, streams with records in flight: in the agent the records of one read stay alive together (parsed by the listener
// goroutine, released by the pipeline worker later) while short and pooled-size (> 1 KB) lines alternate. A window of
// live records is kept; every record must still carry, when it is released, exactly the substrings it carried right
// after it was parsed, and those must be the tokens of its own line.

import (
	"bytes"
	"fmt"
	"strings"
	"testing"
	"time"

	"github.com/relex/gotils/logger"
	"github.com/relex/gotils/promexporter/promreg"
	"github.com/relex/slog-agent/base"
	"github.com/relex/slog-agent/defs"
	"github.com/relex/slog-agent/input/sysloginput"
	"github.com/relex/slog-agent/util"
	"pgregory.net/rapid"

	"verifharness/vh"
)

type StreamLine struct {
	Host, App, Pid, MsgID string
	MsgLen               int // message of this many bytes (short or beyond the 1 KB pooling threshold)
	Pri                  int
}

type StreamCase struct {
	Lines  []StreamLine `json:"lines"`
	Window int          `json:"window"` // records alive at the same time
}

func (l StreamLine) bytes(i int) ([]byte, string) {
	msg := fmt.Sprintf("record-%d ", i)
	for len(msg) < l.MsgLen {
		msg += fmt.Sprintf("%d-%s ", i, "payload")
	}
	msg = msg[:max(l.MsgLen, 1)]
	return []byte(fmt.Sprintf("<%d>1 2020-01-02T03:04:05.678Z %s %s %s %s - %s", l.Pri, l.Host, l.App, l.Pid, l.MsgID, msg)), msg
}

func runStream(c StreamCase) vh.Result {
	res := vh.Result{}
	defs.InputLogMaxMessageBytes = 1 << 20
	defs.InputLogMaxRecordBytes = 1<<20 + 256
	cur = nil // the single-record check caches an environment with other limits
	schema := base.MustNewLogSchema([]string{"facility", "level", "time", "host", "app", "pid", "source", "extradata", "log", "scratch"})
	alloc := base.NewLogAllocator(schema, 1)
	counter := base.NewLogInputCounter(promreg.NewMetricFactory("c09s_", nil, nil))
	cfg := &sysloginput.Config{}
	yml := "type: syslog\naddress: localhost:0\nlevelMapping: [off, fatal, crit, error, warn, notice, info, debug]\nextractions:\n  - type: delFields\n    keys: [scratch]\n"
	if err := util.UnmarshalYamlString(yml, cfg); err != nil {
		panic(err)
	}
	parser, err := cfg.NewParser(logger.Root(), alloc, schema, counter)
	if err != nil {
		panic(err)
	}
	names := []string{"host", "app", "pid", "source", "log"}
	locs := schema.MustCreateFieldLocators(names)
	type live struct {
		idx  int
		rec  *base.LogRecord
		snap []string
	}
	var fifo []live
	long, short := 0, 0
	check := func(l live) *vh.Finding {
		for k, loc := range locs {
			if got := string(loc.Get(l.rec.Fields)); got != l.snap[k] {
				return vh.Fail("parse:live-record-overwritten", "record %d (of %d, window %d): field %s was %.80q right after parsing and is %.80q when the record is released: another line's bytes got into a record that was still alive", l.idx, len(c.Lines), c.Window, names[k], l.snap[k], got)
			}
		}
		return nil
	}
	for i, sl := range c.Lines {
		in, msg := sl.bytes(i)
		if len(in) > 1024 {
			long++
		} else {
			short++
		}
		rec := parser.Parse(in, time.Unix(1600000000, 0))
		for j := range in {
			in[j] = '~' // the reader's buffer is overwritten by the next read
		}
		if rec == nil {
			res.Violation = vh.Fail("parse:valid-rejected", "line %d (a well-formed line) was rejected", i)
			return res
		}
		want := []string{sl.Host, sl.App, sl.Pid, sl.MsgID, msg}
		snap := make([]string, len(locs))
		for k, loc := range locs {
			snap[k] = strings.Clone(string(loc.Get(rec.Fields)))
			if snap[k] != want[k] {
				res.Violation = vh.Fail("parse:field-mismatch", "line %d: field %s = %.80q, the line carries %.80q", i, names[k], snap[k], want[k])
				return res
			}
		}
		fifo = append(fifo, live{i, rec, snap})
		if len(fifo) > c.Window {
			old := fifo[0]
			fifo = fifo[1:]
			if f := check(old); f != nil {
				res.Violation = f
				return res
			}
			alloc.Release(old.rec)
		}
	}
	for _, l := range fifo {
		if f := check(l); f != nil {
			res.Violation = f
			return res
		}
		alloc.Release(l.rec)
	}
	res.NonTrivial = long > 0 && short > 0 && c.Window > 1
	if long > 0 && short > 0 {
		res.Classes = append(res.Classes, "short-and-pooled-size-lines-mixed")
	}
	res.Classes = append(res.Classes, fmt.Sprintf("window-%d", min(c.Window, 4)))
	_ = bytes.MinRead
	return res
}

func genStream(t *rapid.T) StreamCase {
	var c StreamCase
	c.Window = rapid.IntRange(1, 6).Draw(t, "window")
	n := rapid.IntRange(4, 60).Draw(t, "n")
	tok := rapid.StringMatching(`[a-z0-9./-]{1,12}`)
	for i := 0; i < n; i++ {
		l := StreamLine{Host: tok.Draw(t, "host"), App: tok.Draw(t, "app"), Pid: rapid.StringMatching(`[0-9]{1,5}`).Draw(t, "pid"), MsgID: tok.Draw(t, "msgid"), Pri: rapid.IntRange(0, 191).Draw(t, "pri")}
		if rapid.Bool().Draw(t, "long") {
			l.MsgLen = rapid.SampledFrom([]int{1100, 1500, 1900, 2047, 2100, 3000}).Draw(t, "len")
		} else {
			l.MsgLen = rapid.IntRange(1, 200).Draw(t, "len")
		}
		c.Lines = append(c.Lines, l)
	}
	return c
}

func TestC09Streams(t *testing.T) {
	vh.Run(t, vh.Spec[StreamCase]{
		Name: "streams-in-flight", Gen: genStream, Run: runStream, Quick: 1500, Thorough: 30000,
		Rule: "streams of 4-60 well-formed lines, short ones and ones beyond the 1 KB pooling threshold mixed, parsed by one parser on one allocator while a window of 1-6 records stays alive (the reader's buffer is overwritten after every parse, records are released in FIFO order); oracle = every field equals the token of the record's own line right after parsing and still when the record is released; non-trivial = short and pooled-size lines mixed and more than one record alive",
	})
}
