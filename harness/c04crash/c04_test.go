// C04 — spilled chunks survive I/O faults and crashes intact or not at all.
//
// A victim process (this test binary re-executed with VERIF_VICTIM set) spills chunks through the real hybrid buffer and
// suffers exactly one fault while one chunk file is written; the parent then restarts a buffer on the same directory with
// a strict consumer.
package c04crash

import (
	"bytes"
	"encoding/json"
	"fmt"
	"os"
	"os/exec"
	"os/signal"
	"path/filepath"
	"strings"
	"syscall"
	"testing"
	"time"

	"github.com/relex/gotils/logger"
	"github.com/relex/gotils/promexporter/promreg"
	"github.com/relex/slog-agent/base"
	"github.com/relex/slog-agent/buffer/hybridbuffer"
	"github.com/relex/slog-agent/defs"
	"github.com/relex/slog-agent/util"
	"pgregory.net/rapid"

	"verifharness/vh"
)

type Case struct {
	Sizes  []int  `json:"sizes"`  // sizes of the chunks accepted by the victim, in order (the first one stays in memory)
	Target int    `json:"target"` // index of the affected chunk (>= 1)
	Fault  string `json:"fault"`  // fsize-error (RLIMIT_FSIZE, SIGXFSZ ignored: short write then EFBIG) | fsize-kill (RLIMIT_FSIZE, default action) | kill:<step>
	K      int    `json:"k"`      // byte offset at which the file write stops (fsize faults)
	K2     int    `json:"k2,omitempty"` // fsize-steps: the limit is raised to K2 after the first short write and lifted after the second
}

const bufferID = "victim,queue"

func match(id string) bool { return strings.HasSuffix(id, ".ff") }

func chunkID(i int) string { return fmt.Sprintf("%019d-%08d.ff", 1700000000000000000+int64(i), 0) }

func chunkData(i, size int) []byte {
	b := make([]byte, size)
	for j := range b {
		b[j] = byte(0x41 + (i*31+j*7)%57)
	}
	return b
}

func setDefs() {
	defs.BufferMaxNumChunksInMemory = 2
	defs.BufferMaxNumChunksInQueue = 100
	defs.IntermediateChannelTimeout = 2 * time.Second
	defs.BufferShutDownTimeout = 2 * time.Second
}

func newBuffer(root string, mf *promreg.MetricFactory) base.ChunkBufferer {
	cfg := &hybridbuffer.Config{}
	if err := util.UnmarshalYamlString("type: hybridBuffer\nrootPath: "+root+"\nmaxBufSize: 100MB\n", cfg); err != nil {
		panic(err)
	}
	return cfg.NewBufferer(logger.Root(), bufferID, match, mf.AddOrGetPrefix("buffer_", []string{"output"}, []string{"o"}), false)
}

// ---------------------------------------------------------------------------
// victim

type victimReport struct {
	Accepted []int              `json:"accepted"` // indexes whose Accept returned
	Metrics  map[string]float64 `json:"metrics"`
	Clean    bool               `json:"clean"` // reached the graceful Destroy
}

func victimMain(spec string) {
	var c Case
	root := os.Getenv("VERIF_VICTIM_DIR")
	if err := json.Unmarshal([]byte(spec), &c); err != nil {
		fmt.Println("bad victim spec", err)
		os.Exit(3)
	}
	vh.QuietLogs(logger.FatalLevel)
	setDefs()
	if c.Fault == "handback-at-stop" {
		defs.BufferMaxNumChunksInMemory = 64 // many chunks stay unsaved: both the feeder and the consumer have files to write at the stop
	}
	mf := promreg.NewMetricFactory("v_", nil, nil)
	b := newBuffer(root, mf)
	b.Start()
	args := b.RegisterNewConsumer() // a consumer that stalls: chunks stay queued
	go func() {
		// handback-at-stop: the consumer takes K chunks without confirming them (sent, not acknowledged) and hands them back
		// when it is told to stop, while the feeder saves what is still queued: two writers in one queue directory
		var held []base.LogChunk
		for c.Fault == "handback-at-stop" && len(held) < c.K {
			select {
			case ch, ok := <-args.InputChannel:
				if ok {
					held = append(held, ch)
					continue
				}
			case <-args.InputClosed.Channel():
			}
			break
		}
		<-args.InputClosed.Channel()
		for _, ch := range held {
			args.OnChunkLeftover(ch)
		}
		args.OnFinished()
	}()
	rep := victimReport{}
	flush := func() {
		m := vh.Gather(mf)
		rep.Metrics = map[string]float64{"dropped": m.Sum("v_buffer_dropped_chunks_total"), "io_errors": m.Sum("v_buffer_io_errors_total"),
			"persistent_in": m.Sum("v_buffer_input_chunks_total", "state=persistent"), "transient_in": m.Sum("v_buffer_input_chunks_total", "state=transient")}
		out, _ := json.Marshal(rep)
		_ = os.WriteFile(os.Getenv("VERIF_VICTIM_REPORT"), out, 0o644)
	}
	for i, size := range c.Sizes {
		if i == 1 {
			// let the feeder move the first chunk into the in-memory window so that every later Accept spills
			deadline := time.Now().Add(2 * time.Second)
			for time.Now().Before(deadline) {
				if vh.Gather(mf).Sum("v_buffer_queued_chunks") == 0 {
					break
				}
				time.Sleep(time.Millisecond)
			}
			time.Sleep(2 * time.Millisecond)
		}
		var restore func()
		if i == c.Target {
			flush() // the report must exist before the process may die
			switch {
			case strings.HasPrefix(c.Fault, "fsize"):
				if c.Fault == "fsize-error" || c.Fault == "fsize-steps" {
					signal.Ignore(syscall.SIGXFSZ)
				}
				if c.Fault == "fsize-killmid" {
					// the process is killed right after the kernel accepted only the first k bytes
					util.KillPointForVerif = func(s string, filename string) {
						if s == "after-partial-write" {
							_ = syscall.Kill(os.Getpid(), syscall.SIGKILL)
							time.Sleep(time.Second)
						}
					}
				}
				var old syscall.Rlimit
				_ = syscall.Getrlimit(syscall.RLIMIT_FSIZE, &old)
				lim := old
				lim.Cur = uint64(c.K)
				if err := syscall.Setrlimit(syscall.RLIMIT_FSIZE, &lim); err != nil {
					fmt.Println("setrlimit failed", err)
					os.Exit(3)
				}
				restore = func() { _ = syscall.Setrlimit(syscall.RLIMIT_FSIZE, &old) }
				if c.Fault == "fsize-steps" {
					// several short writes in a row, each making progress: space (or quota) becomes available step by step
					step := 0
					util.KillPointForVerif = func(s string, filename string) {
						if s != "after-partial-write" {
							return
						}
						step++
						next := old
						if step == 1 {
							next.Cur = uint64(c.K2)
						}
						_ = syscall.Setrlimit(syscall.RLIMIT_FSIZE, &next)
					}
				}
			case c.Fault == "enospc":
				// a real out-of-space error from write(2) at offset 0: the temporary name of the chunk file is a symbolic link
				// to /dev/full (the writer opens it without O_EXCL/O_NOFOLLOW and unlinks it as its normal clean-up)
				dirs, _ := filepath.Glob(filepath.Join(root, "*", ".id"))
				if len(dirs) != 1 {
					fmt.Println("expected one queue directory, found", dirs)
					os.Exit(3)
				}
				if err := os.Symlink("/dev/full", filepath.Join(filepath.Dir(dirs[0]), chunkID(i)+util.TempFileSuffix)); err != nil {
					fmt.Println("symlink failed", err)
					os.Exit(3)
				}
			case strings.HasPrefix(c.Fault, "kill:"):
				step := strings.TrimPrefix(c.Fault, "kill:")
				util.KillPointForVerif = func(s string, filename string) {
					if s == step && filename != "" {
						_ = syscall.Kill(os.Getpid(), syscall.SIGKILL)
						time.Sleep(time.Second)
					}
				}
			}
		}
		b.Accept(base.LogChunk{ID: chunkID(i), Data: chunkData(i, size)})
		if restore != nil {
			restore()
		}
		util.KillPointForVerif = nil
		rep.Accepted = append(rep.Accepted, i)
		flush()
	}
	b.Destroy()
	rep.Clean = true
	flush()
	os.Exit(0)
}

func TestMain(m *testing.M) {
	if spec := os.Getenv("VERIF_VICTIM"); spec != "" {
		victimMain(spec)
		return
	}
	vh.QuietLogs(logger.FatalLevel)
	setDefs()
	os.Exit(m.Run())
}

// ---------------------------------------------------------------------------
// parent

func runCase(c Case) vh.Result {
	res := vh.Result{}
	root, err := os.MkdirTemp("", "verif-c04-")
	if err != nil {
		panic(err)
	}
	defer os.RemoveAll(root)
	spec, _ := json.Marshal(c)
	report := filepath.Join(root, "report.json")
	cmd := exec.Command(os.Args[0], "-test.run", "^$")
	cmd.Env = append(os.Environ(), "VERIF_VICTIM="+string(spec), "VERIF_VICTIM_DIR="+filepath.Join(root, "q"), "VERIF_VICTIM_REPORT="+report, "VERIF_OUT=")
	var out bytes.Buffer
	cmd.Stdout, cmd.Stderr = &out, &out
	runErr := cmd.Run()
	var rep victimReport
	if b, err := os.ReadFile(report); err == nil {
		_ = json.Unmarshal(b, &rep)
	} else if c.Target < len(c.Sizes) {
		panic(fmt.Sprintf("victim left no report: %v\n%s", runErr, out.String()))
	}
	died := runErr != nil
	if ee, ok := runErr.(*exec.ExitError); ok && ee.ExitCode() == 3 {
		panic("victim could not set up the fault: " + out.String())
	}
	size := c.Sizes[c.Target]
	midWrite := c.Fault == "handback-at-stop" || c.Fault == "enospc" || c.Fault == "fsize-steps" || strings.HasPrefix(c.Fault, "damage:") || (strings.HasPrefix(c.Fault, "fsize") && c.K > 0 && c.K < size) || c.Fault == "kill:after-open" || c.Fault == "kill:after-write" || c.Fault == "kill:after-close"
	res.NonTrivial = midWrite
	res.Classes = append(res.Classes, "fault-"+c.Fault)
	if died {
		res.Classes = append(res.Classes, "victim-died")
	} else {
		res.Classes = append(res.Classes, "victim-survived")
	}
	switch {
	case c.Target == 1:
		res.Classes = append(res.Classes, "affected-first-spilled")
	case c.Target == len(c.Sizes)-1:
		res.Classes = append(res.Classes, "affected-last")
	default:
		res.Classes = append(res.Classes, "affected-middle")
	}

	if c.Fault == "damage:empty" {
		// no fault in the victim; the chunk file is found empty at the next start (e.g. written by an older version that
		// crashed after creating it, or emptied by a file system repair)
		matches, _ := filepath.Glob(filepath.Join(root, "q", "*", chunkID(c.Target)))
		if len(matches) != 1 {
			panic(fmt.Sprintf("expected the file of chunk %d, found %v\n%s", c.Target, matches, out.String()))
		}
		if err := os.Truncate(matches[0], 0); err != nil {
			panic(err)
		}
	}
	// further kinds of damage found at the next start (no fault in the victim). The file of the affected chunk ...
	var targetFile string
	if strings.HasPrefix(c.Fault, "damage:") && c.Fault != "damage:empty" {
		matches, _ := filepath.Glob(filepath.Join(root, "q", "*", chunkID(c.Target)))
		if len(matches) != 1 {
			panic(fmt.Sprintf("expected the file of chunk %d, found %v\n%s", c.Target, matches, out.String()))
		}
		targetFile = matches[0]
		switch c.Fault {
		case "damage:unreadable":
			// ... can be opened and examined but every read fails (what EIO on a bad sector looks like to the agent; produced
			// without privileges by a directory of that name: read(2) returns EISDIR)
			if err := os.Remove(targetFile); err != nil {
				panic(err)
			}
			if err := os.Mkdir(targetFile, 0o755); err != nil {
				panic(err)
			}
		case "damage:dangling":
			// ... is a name that cannot be opened (a symbolic link whose target is gone)
			if err := os.Remove(targetFile); err != nil {
				panic(err)
			}
			if err := os.Symlink(filepath.Join(root, "no-such-file"), targetFile); err != nil {
				panic(err)
			}
		case "damage:foreign-entries":
			// ... is intact, but the directory also holds entries that are no chunks: they must neither be forwarded nor be in the way
			dir := filepath.Dir(targetFile)
			_ = os.WriteFile(filepath.Join(dir, "README.txt"), []byte("not a chunk"), 0o644)
			_ = os.WriteFile(filepath.Join(dir, chunkID(c.Target)+".tmp"), []byte("an unfinished copy"), 0o644)
			_ = os.WriteFile(filepath.Join(dir, chunkID(0)+".tmp"), nil, 0o644)
			_ = os.Mkdir(filepath.Join(dir, "lost+found"), 0o755)
			_ = os.WriteFile(filepath.Join(dir, ".hidden"), []byte("x"), 0o644)
		}
	}
	// restart on the same directory with a strict consumer
	mf := promreg.NewMetricFactory("p_", nil, nil)
	b := newBuffer(filepath.Join(root, "q"), mf)
	b.Start()
	if c.Fault == "damage:vanished" {
		// ... was there when the directory was listed (Start lists it synchronously) and is gone when the chunk is to be
		// loaded: with a memory window of 2 and no consumer yet, the feeder cannot have gone beyond the fourth file
		if c.Target < 4 {
			panic("HARNESS-ERROR: damage:vanished needs the affected chunk at position >= 4")
		}
		if err := os.Remove(targetFile); err != nil {
			panic(err)
		}
	}
	args := b.RegisterNewConsumer()
	delivered := map[string][]byte{}
	var order []string
	idle := time.NewTimer(300 * time.Millisecond)
loop:
	for {
		select {
		case ch, ok := <-args.InputChannel:
			if !ok {
				break loop
			}
			delivered[ch.ID] = append([]byte(nil), ch.Data...)
			order = append(order, ch.ID)
			args.OnChunkConsumed(ch)
			if !idle.Stop() {
				<-idle.C
			}
			idle.Reset(60 * time.Millisecond)
		case <-idle.C:
			break loop
		}
	}
	go func() { <-args.InputClosed.Channel(); args.OnFinished() }()
	b.Destroy()
	pm := vh.Gather(mf)
	recoveredDropped := pm.Sum("p_buffer_dropped_chunks_total")

	accepted := map[int]bool{}
	for _, i := range rep.Accepted {
		accepted[i] = true
	}
	for i, sz := range c.Sizes {
		id := chunkID(i)
		want := chunkData(i, sz)
		got, ok := delivered[id]
		if ok && !bytes.Equal(got, want) {
			key := "crash:altered-chunk-forwarded"
			if len(got) < len(want) && bytes.Equal(got, want[:len(got)]) {
				key = "crash:truncated-chunk-forwarded"
			}
			res.Violation = vh.Fail(key, "chunk %d (%s): %d bytes were produced, %d bytes reached the consumer after the restart (fault %s k=%d on chunk %d; victim died=%v)", i, id, len(want), len(got), c.Fault, c.K, c.Target, died)
			return res
		}
		if i == c.Target && c.Fault != "handback-at-stop" {
			if c.Fault == "damage:empty" && (ok || recoveredDropped < 1) {
				res.Violation = vh.Fail("crash:empty-file-not-handled", "the empty file of chunk %d was delivered=%v, dropped counter of the restarted agent %v", i, ok, recoveredDropped)
				return res
			}
			if c.Fault == "damage:foreign-entries" && !ok {
				res.Violation = vh.Fail("crash:other-chunk-not-recovered", "chunk %d (%s) is intact on disk but was not delivered after the restart: entries of the queue directory that are no chunks got in the way (delivered %v)", i, id, order)
				return res
			}
			if (c.Fault == "damage:unreadable" || c.Fault == "damage:dangling" || c.Fault == "damage:vanished") && (ok || recoveredDropped < 1) {
				res.Violation = vh.Fail("crash:unreadable-file-not-handled", "the file of chunk %d cannot be read (%s): delivered=%v, dropped counter of the restarted agent %v (a chunk that cannot be loaded is to be counted as dropped)", i, c.Fault, ok, recoveredDropped)
				return res
			}
			if !ok && !died && c.Fault != "damage:empty" {
				// not forwarded and the victim lived on: the loss must be visible in its metrics
				if rep.Metrics["dropped"] < 1 && recoveredDropped < 1 {
					res.Violation = vh.Fail("crash:loss-not-accounted", "affected chunk %d was not forwarded but neither the victim (dropped=%v io_errors=%v) nor the restarted agent (dropped=%v) counted it", i, rep.Metrics["dropped"], rep.Metrics["io_errors"], recoveredDropped)
					return res
				}
			}
			continue
		}
		// other chunks: everything whose Accept returned before a crash, or everything if the victim shut down cleanly,
		// must be delivered -- a damaged file never blocks recovery of the others. (The first chunk lives in memory only
		// and is legitimately lost by a crash.)
		mustHave := (rep.Clean) || (accepted[i] && i != 0)
		if mustHave && !ok {
			res.Violation = vh.Fail("crash:other-chunk-not-recovered", "chunk %d (%s) was persisted by the victim but not delivered after the restart (fault %s k=%d on chunk %d; delivered %v)", i, id, c.Fault, c.K, c.Target, order)
			return res
		}
	}
	for id := range delivered {
		known := false
		for i := range c.Sizes {
			if chunkID(i) == id {
				known = true
			}
		}
		if !known {
			res.Violation = vh.Fail("crash:unknown-chunk-forwarded", "chunk %s was never produced", id)
			return res
		}
	}
	return res
}

// (handback-at-stop is generated separately: it has its own shape of case)
var faults = []string{"fsize-error", "fsize-kill", "fsize-killmid", "damage:empty", "kill:after-open", "kill:after-write", "kill:after-close", "kill:after-rename", "fsize-steps", "enospc",
	"damage:unreadable", "damage:dangling", "damage:vanished", "damage:foreign-entries"}

func genCase(t *rapid.T) Case {
	var c Case
	if rapid.IntRange(0, 9).Draw(t, "handback") == 0 {
		// no I/O fault: a graceful stop at which the consumer hands back unsaved chunks while the feeder saves the queue
		n := rapid.IntRange(8, 40).Draw(t, "n")
		for i := 0; i < n; i++ {
			c.Sizes = append(c.Sizes, rapid.IntRange(20000, 300000).Draw(t, "size"))
		}
		c.Target, c.Fault, c.K = 1, "handback-at-stop", rapid.IntRange(2, n-2).Draw(t, "held")
		return c
	}
	n := rapid.IntRange(2, 6).Draw(t, "n")
	for i := 0; i < n; i++ {
		c.Sizes = append(c.Sizes, rapid.OneOf(rapid.IntRange(1, 64), rapid.IntRange(100, 5000), rapid.SampledFrom([]int{4096, 8192, 65536, 200000})).Draw(t, "size"))
	}
	c.Target = rapid.IntRange(1, n-1).Draw(t, "target")
	c.Fault = rapid.SampledFrom(faults).Draw(t, "fault")
	if strings.HasPrefix(c.Fault, "fsize") {
		c.K = rapid.OneOf(rapid.IntRange(0, c.Sizes[c.Target]), rapid.SampledFrom([]int{0, 1, c.Sizes[c.Target] - 1, c.Sizes[c.Target], 4096})).Draw(t, "k")
		if c.K < 0 {
			c.K = 0
		}
	}
	if c.Fault == "damage:vanished" {
		for len(c.Sizes) < 6 {
			c.Sizes = append(c.Sizes, rapid.IntRange(1, 5000).Draw(t, "size"))
		}
		c.Target = rapid.IntRange(4, len(c.Sizes)-1).Draw(t, "vanishTarget")
	}
	if c.Fault == "fsize-steps" {
		size := c.Sizes[c.Target]
		if size < 3 {
			c.Sizes[c.Target] = 3
			size = 3
		}
		c.K = rapid.IntRange(1, size-2).Draw(t, "k1")
		c.K2 = rapid.IntRange(c.K+1, size-1).Draw(t, "k2")
	}
	return c
}

func enumFaults(yield func(Case) bool) {
	if vh.Shard == 0 {
		for _, target := range []int{4, 5, 6} {
			if !yield(Case{Sizes: []int{9, 11, 13, 15, 17, 19, 21}, Target: target, Fault: "damage:vanished"}) {
				return
			}
		}
	}
	sizes := []int{1, 7, 48}
	if vh.Tier == "thorough" {
		sizes = nil
		for s := 1; s <= 48; s++ {
			sizes = append(sizes, s)
		}
	}
	idx := 0
	for _, size := range sizes {
		for _, pos := range []int{1, 2, 3} { // first spilled / middle / last of 4 chunks
			base := Case{Sizes: []int{9, 11, 13, 15}, Target: pos}
			base.Sizes[pos] = size
			for _, f := range []string{"fsize-error", "fsize-kill", "fsize-killmid"} {
				for k := 0; k <= size; k++ {
					idx++
					if vh.NShards > 1 && idx%vh.NShards != vh.Shard {
						continue
					}
					c := base
					c.Sizes = append([]int(nil), base.Sizes...)
					c.Fault, c.K = f, k
					if !yield(c) {
						return
					}
				}
			}
			for k1 := 1; k1 <= size-2 && size <= 12; k1++ { // every pair of stop offsets for small chunks
				for k2 := k1 + 1; k2 <= size-1; k2++ {
					idx++
					if vh.NShards > 1 && idx%vh.NShards != vh.Shard {
						continue
					}
					c := base
					c.Sizes = append([]int(nil), base.Sizes...)
					c.Fault, c.K, c.K2 = "fsize-steps", k1, k2
					if !yield(c) {
						return
					}
				}
			}
			for _, f := range append(append([]string{}, faults[3:8]...), "enospc", "damage:unreadable", "damage:dangling", "damage:foreign-entries") { // damage:*, the kill points, ENOSPC
				idx++
				if vh.NShards > 1 && idx%vh.NShards != vh.Shard {
					continue
				}
				c := base
				c.Sizes = append([]int(nil), base.Sizes...)
				c.Fault = f
				if !yield(c) {
					return
				}
			}
		}
	}
}

func TestC04Crash(t *testing.T) {
	vh.Run(t, vh.Spec[Case]{
		Name: "crash", Gen: genCase, Run: runCase, Journal: true, Quick: 40, Thorough: 400, Enum: enumFaults, ShrinkSeconds: 10,
		Rule: "a victim process spills 2-6 chunks through the real hybrid buffer (memory window 2) and one chunk file write suffers: RLIMIT_FSIZE=k with SIGXFSZ ignored (short write, then EFBIG), RLIMIT_FSIZE=k with the default disposition (the Go runtime does not let SIGXFSZ kill the process, so this is the same error path), RLIMIT_FSIZE=k plus SIGKILL right after the partial write (killed mid-write at offset k), or SIGKILL at kill point after-open/after-write/after-close/after-rename (hook H1), or a real ENOSPC from write(2) (temporary name pre-created as a symbolic link to /dev/full); k enumerated 0..size for sizes {1,7,48} [quick] / 1..48 [thorough] x affected chunk first/middle/last, rapid adds sizes up to 200 KB; or no fault in the victim but damage found at the next start: the chunk file empty, unreadable (opens, every read fails), a dangling name, gone between the directory listing and the load, or intact among entries that are no chunks (.tmp leftovers, other files, sub-directories); then a restart on the same directory with a strict consumer; oracle: every delivered chunk byte-identical to a produced one, the affected chunk intact or absent (and counted when the victim survived), every other persisted chunk delivered; non-trivial = write stopped strictly inside the chunk or a kill between open and completion",
	})
}
