// C08 — record framing is independent of TCP segmentation and flush timing.
package c08frame

import (
	"bytes"
	"fmt"
	"io"
	"sort"
	"testing"

	"github.com/relex/gotils/logger"
	"github.com/relex/slog-agent/input/syslogprotocol"
	"github.com/relex/slog-agent/input/tcplistener"
	"pgregory.net/rapid"

	"verifharness/vh"
)

func init() { vh.QuietLogs(logger.ErrorLevel) }

type Case struct {
	Lines   [][]byte `json:"lines"`   // stream = every line followed by '\n'
	Cuts    []int    `json:"cuts"`    // sorted, distinct offsets in (0,len(stream)) where the stream is cut into read fragments
	Flushes []int    `json:"flushes"` // a Flush() is issued after the fragment with this index has been delivered (may repeat)
	Soft    int      `json:"soft"`    // soft record limit; buffer = max(MinBuf, 3*Soft)
	MinBuf  int      `json:"minBuf"`
}

func (c Case) stream() []byte {
	var b bytes.Buffer
	for _, l := range c.Lines {
		b.Write(l)
		b.WriteByte('\n')
	}
	return b.Bytes()
}

// isHead is the harness's own statement of the record-start rule documented for the syslog input:
// "<" 1-3 digits ">1 " at the start of a line of at least 32 bytes.
func isHead(l []byte) bool {
	if len(l) < 32 || l[0] != '<' {
		return false
	}
	i := 1
	for i < len(l) && i <= 3 && l[i] >= '0' && l[i] <= '9' {
		i++
	}
	if i == 1 {
		return false
	}
	return i+2 < len(l) && l[i] == '>' && l[i+1] == '1' && l[i+2] == ' '
}

type group struct {
	lines      [][]byte
	valid      bool
	headEnd    int   // stream offset just after the head line's newline
	contEnds   []int // stream offset just after each continuation line's newline
}

func reference(c Case) []group {
	var groups []group
	off := 0
	for _, l := range c.Lines {
		end := off + len(l) + 1
		if isHead(l) || len(groups) == 0 {
			groups = append(groups, group{lines: [][]byte{l}, valid: isHead(l), headEnd: end})
		} else {
			g := &groups[len(groups)-1]
			g.lines = append(g.lines, l)
			g.contEnds = append(g.contEnds, end)
		}
		off = end
	}
	return groups
}

func run(c Case) vh.Result {
	res := vh.Result{}
	stream := c.stream()
	// fragments
	var frags [][]byte
	prev := 0
	for _, cut := range c.Cuts {
		frags = append(frags, stream[prev:cut])
		prev = cut
	}
	frags = append(frags, stream[prev:])

	var emitted [][]byte
	var pending []byte
	read := func(p []byte) (int, error) {
		if len(pending) == 0 {
			return 0, io.EOF
		}
		n := copy(p, pending)
		pending = pending[n:]
		return n, nil
	}
	consume := func(s []byte) { emitted = append(emitted, append([]byte(nil), s...)) }
	r := tcplistener.NewMultiLineReaderForVerif(read, syslogprotocol.TestRecordStart, c.MinBuf, c.Soft, consume)

	flushAfter := map[int]int{}
	for _, f := range c.Flushes {
		flushAfter[f]++
	}
	var flushOffsets []int // number of stream bytes delivered when each flush happened
	delivered := 0
	for i, f := range frags {
		pending = f
		for guard := 0; len(pending) > 0; guard++ {
			if guard > len(f)+10 {
				res.Violation = vh.Fail("frame:no-progress", "Read makes no progress")
				return res
			}
			if err := r.Read(); err != nil {
				res.Violation = vh.Fail("frame:read-error", "Read returned %v while data was pending", err)
				return res
			}
		}
		delivered += len(f)
		for k := 0; k < flushAfter[i]; k++ {
			r.Flush()
			flushOffsets = append(flushOffsets, delivered)
		}
	}
	r.FlushAll()

	// classification
	groups := reference(c)
	multi := false
	for _, g := range groups {
		if g.valid && len(g.lines) > 1 {
			multi = true
		}
	}
	lineStarts := map[int]bool{}
	off := 0
	for _, l := range c.Lines {
		lineStarts[off] = true
		off += len(l) + 1
	}
	interestingCut := false
	for _, cut := range c.Cuts {
		// inside the first 8 bytes of a line (header), directly before or after a newline
		for d := 0; d <= 8; d++ {
			if lineStarts[cut-d] {
				interestingCut = true
			}
		}
		if lineStarts[cut+1] {
			interestingCut = true
		}
	}
	flushMidLine := false
	for _, f := range flushOffsets {
		if !lineStarts[f] && f < len(stream) {
			flushMidLine = true
		}
	}
	relocated := len(stream) > max(c.MinBuf, 3*c.Soft)
	res.NonTrivial = interestingCut || flushMidLine
	if interestingCut {
		res.Classes = append(res.Classes, "cut-in-header-or-at-newline")
	}
	if flushMidLine {
		res.Classes = append(res.Classes, "flush-with-partial-line-buffered")
	}
	if relocated {
		res.Classes = append(res.Classes, "stream-longer-than-buffer(relocation)")
	}
	if multi {
		res.Classes = append(res.Classes, "multi-line-records")
	}
	if len(flushOffsets) > 0 {
		res.Classes = append(res.Classes, "with-flushes")
	}

	// expected valid records
	var want [][]byte
	for _, g := range groups {
		if !g.valid {
			continue
		}
		k := len(g.lines) - 1
		if len(g.contEnds) > 0 {
			last := g.contEnds[len(g.contEnds)-1]
			// the first flush after the head line was completely delivered
			idx := sort.SearchInts(flushOffsets, g.headEnd)
			if idx < len(flushOffsets) && flushOffsets[idx] < last {
				f := flushOffsets[idx]
				k = 0
				for _, ce := range g.contEnds {
					if ce <= f {
						k++
					}
				}
			}
		}
		want = append(want, bytes.Join(g.lines[:k+1], []byte("\n")))
	}
	// Emitted records that begin with one of the stream's real head lines. (Lines orphaned by a flush may be emitted as
	// records of their own; the property promises nothing about them, so they are not compared. Head lines are unique.)
	headSet := map[string]bool{}
	for _, g := range groups {
		if g.valid {
			headSet[string(g.lines[0])] = true
		}
	}
	var got [][]byte
	for _, e := range emitted {
		first := e
		if i := bytes.IndexByte(e, '\n'); i >= 0 {
			first = e[:i]
		}
		if headSet[string(first)] {
			got = append(got, e)
		}
	}
	if len(got) != len(want) {
		res.Violation = vh.Fail("frame:record-count", "%d valid records emitted, reference has %d (%d cuts %v flushes at %v)\n got  %s\n want %s", len(got), len(want), len(c.Cuts), head(c.Cuts), flushOffsets, brief(got), brief(want))
		return res
	}
	for i := range want {
		if !bytes.Equal(got[i], want[i]) {
			res.Violation = vh.Fail("frame:record-content", "record %d differs (%d cuts %v flushes at %v)\n got  %.200q\n want %.200q", i, len(c.Cuts), head(c.Cuts), flushOffsets, got[i], want[i])
			return res
		}
	}
	return res
}

func head(l []int) []int {
	if len(l) > 12 {
		return l[:12]
	}
	return l
}

func brief(recs [][]byte) string {
	var b bytes.Buffer
	for i, r := range recs {
		if i >= 6 {
			b.WriteString(" ...")
			break
		}
		fmt.Fprintf(&b, " [%d]%.40q", len(r), r)
	}
	return b.String()
}

// ---------------------------------------------------------------------------
// generators

func genHead(t *rapid.T, maxLen int, seq int) []byte {
	pri := rapid.SampledFrom([]string{"0", "5", "13", "99", "163", "191"}).Draw(t, "pri")
	body := fmt.Sprintf("<%s>1 2019-08-15T15:50:46.866915+03:00 h a p m - #%d ", pri, seq)
	n := rapid.IntRange(0, max(0, maxLen-len(body))).Draw(t, "pad")
	if rapid.IntRange(0, 3).Draw(t, "short") > 0 {
		n = min(n, 12)
	}
	pad := make([]byte, n)
	for i := range pad {
		pad[i] = byte('a' + i%26)
	}
	out := append([]byte(body), pad...)
	// the last byte before the newline: CR (senders that terminate lines with CR LF), blanks, NUL, a backslash - whatever
	// it is, it belongs to the record on every path that emits one
	if tail := rapid.SampledFrom([]string{"", "", "", "\r", "\r", " ", "\t", "\x00", "\\", "\r\r"}).Draw(t, "tail"); len(out)+len(tail) <= maxLen {
		out = append(out, tail...)
	}
	return out
}

func genCont(t *rapid.T, maxLen int) []byte {
	k := rapid.IntRange(0, 7).Draw(t, "contKind")
	switch k {
	case 0:
		return nil // empty line
	case 1:
		if maxLen < 11 {
			return []byte("x")[:min(1, max(0, maxLen))]
		}
		return []byte("<13>1 short") // looks like a head but shorter than 32 bytes
	case 2:
		return []byte("<1634>1 2019-08-15T15:50:46.866915+03:00 four digit pri is not a head")[:min(maxLen, 60)]
	case 3:
		return []byte(" <13>1 2019-08-15T15:50:46.866915+03:00 leading space is not a head")[:min(maxLen, 60)]
	case 4:
		return []byte("<13>2 2019-08-15T15:50:46.866915+03:00 wrong version is not a head")[:min(maxLen, 60)]
	default:
		n := rapid.IntRange(1, min(maxLen, 50)).Draw(t, "n")
		b := make([]byte, n)
		for i := range b {
			b[i] = byte('A' + i%26)
		}
		if rapid.Bool().Draw(t, "tab") {
			b[0] = '\t'
		}
		return b
	}
}

func genLines(t *rapid.T, soft int, allowMulti bool) [][]byte {
	var lines [][]byte
	ngroups := rapid.IntRange(1, 10).Draw(t, "ngroups")
	if allowMulti && rapid.IntRange(0, 3).Draw(t, "leadingGarbage") == 0 {
		lines = append(lines, genCont(t, soft/2))
	}
	for g := 0; g < ngroups; g++ {
		budget := soft - 1
		h := genHead(t, budget-1, g)
		lines = append(lines, h)
		budget -= len(h) + 1
		if allowMulti {
			for n := rapid.IntRange(0, 3).Draw(t, "nCont"); n > 0 && budget > 2; n-- {
				cl := genCont(t, budget-1)
				if len(cl) > budget-1 { // domain: head + continuation lines stay below the soft limit
					cl = cl[:budget-1]
				}
				lines = append(lines, cl)
				budget -= len(cl) + 1
			}
		}
	}
	return lines
}

func genCase(allowMulti bool) func(t *rapid.T) Case {
	return func(t *rapid.T) Case {
		var c Case
		c.Soft = rapid.SampledFrom([]int{128, 200, 1000}).Draw(t, "soft")
		c.MinBuf = rapid.SampledFrom([]int{0, 3 * c.Soft, 4 * c.Soft}).Draw(t, "minBuf")
		c.Lines = genLines(t, c.Soft, allowMulti)
		n := len(c.stream())
		ncuts := rapid.IntRange(0, min(12, n-1)).Draw(t, "ncuts")
		if rapid.IntRange(0, 9).Draw(t, "byteWise") == 0 {
			ncuts = n - 1 // one byte per read
		}
		set := map[int]bool{}
		if ncuts == n-1 {
			for i := 1; i < n; i++ {
				set[i] = true
			}
		}
		for len(set) < ncuts {
			var cut int
			if rapid.Bool().Draw(t, "atLine") {
				// near a line boundary
				li := rapid.IntRange(0, len(c.Lines)-1).Draw(t, "line")
				off := 0
				for _, l := range c.Lines[:li] {
					off += len(l) + 1
				}
				cut = off + rapid.IntRange(-1, 8).Draw(t, "d")
			} else {
				cut = rapid.IntRange(1, n-1).Draw(t, "cut")
			}
			if cut >= 1 && cut <= n-1 {
				set[cut] = true
			} else {
				ncuts--
			}
		}
		for cut := range set {
			c.Cuts = append(c.Cuts, cut)
		}
		sort.Ints(c.Cuts)
		nfl := rapid.IntRange(0, 4).Draw(t, "nflush")
		for i := 0; i < nfl; i++ {
			c.Flushes = append(c.Flushes, rapid.IntRange(0, len(c.Cuts)).Draw(t, "flushAt"))
		}
		sort.Ints(c.Flushes)
		return c
	}
}

// enumSplits: exhaustively all 1- and 2-cut splits (and all single flush positions for 1-cut) of fixed streams.
func enumSplits(yield func(Case) bool) {
	mk := func(lines ...string) [][]byte {
		var out [][]byte
		for _, l := range lines {
			out = append(out, []byte(l))
		}
		return out
	}
	h := func(pri string, msg string) string {
		return "<" + pri + ">1 2019-08-15T15:50:46.866915+03:00 h a p m - " + msg
	}
	streams := [][][]byte{
		mk(h("13", "one"), h("14", "two"), h("163", "three")),
		mk(h("13", "one"), "cont A", "", "cont B", h("14", "two"), "<13>1 short", h("5", "three")),
		mk("garbage first", h("13", "one"), h("14", "two with a longer message so that relocation is needed somewhere in here"), "tail cont"),
		mk(h("191", "only")),
		mk(h("0", "a"), h("1", "b"), h("2", "c"), h("3", "d"), h("4", "e"), h("5", "f"), h("6", "g")),
		mk(h("13", "x"), "<1634>1 2019-08-15T15:50:46.866915+03:00 not a head because of pri", h("13", "y")),
	}
	// a sender that terminates its lines with CR LF
	streams = append([][][]byte{mk(h("13", "one\r"), h("14", "two\r"), h("163", "three\r"))}, streams...)
	nStreams := len(streams)
	if vh.Tier != "thorough" {
		nStreams = 5
	}
	for si := 0; si < nStreams; si++ {
		base := Case{Lines: streams[si], Soft: 128, MinBuf: 0}
		n := len(base.stream())
		if !yield(base) {
			return
		}
		for a := 1; a < n; a++ {
			c := base
			c.Cuts = []int{a}
			if !yield(c) {
				return
			}
			c.Flushes = []int{0}
			if !yield(c) {
				return
			}
			for b := a + 1; b < n; b++ {
				c2 := base
				c2.Cuts = []int{a, b}
				if !yield(c2) {
					return
				}
				if (a+b)%7 == 0 { // a flush after the first or the second fragment for a seventh of the 2-cut splits
					c2.Flushes = []int{(a + b) / 7 % 2}
					if !yield(c2) {
						return
					}
				}
			}
		}
	}
}

func TestC08Framing(t *testing.T) {
	vh.Run(t, vh.Spec[Case]{
		Name: "reader", Gen: genCase(true), Run: run, Quick: 30000, Thorough: 300000, Enum: enumSplits, EnumOnlyShard0: true,
		Rule: "streams of single- and multi-line records (heads with PRI of 1-3 digits; lines ending in CR, blanks, NUL or a backslash; continuation lines incl. empty, head-like-but-short, 4-digit PRI, wrong version; leading garbage) through the real multiLineReader (hook H2) with soft limits 128/200/1000 and buffers of 3-4x; exhaustive: all 1- and 2-cut splits of fixed streams plus a flush after the first fragment; rapid: up to 12 cuts biased to line starts/ends, byte-wise delivery, up to 4 flushes; oracle = line-based reference framer: valid records equal, once and in order; with a flush between a head and its last continuation line the record is the head plus exactly the continuation lines completed before that flush; non-trivial = a cut inside a header / next to a newline, or a flush while a partial line is buffered",
	})
}

func TestC08SingleLine(t *testing.T) {
	vh.Run(t, vh.Spec[Case]{
		Name: "single-line", Gen: genCase(false), Run: run, Quick: 20000, Thorough: 200000,
		Rule: "streams of single-line records only, arbitrary cuts and flush positions: emitted records == lines, each exactly once and in order; non-trivial as above",
	})
}
