package c08frame

import (
	"bytes"
	"fmt"
	"net"
	"sync"
	"testing"
	"time"

	"github.com/relex/gotils/channels"
	"github.com/relex/gotils/logger"
	"github.com/relex/slog-agent/base"
	"github.com/relex/slog-agent/defs"
	"github.com/relex/slog-agent/input/syslogprotocol"
	"github.com/relex/slog-agent/input/tcplistener"
	"pgregory.net/rapid"

	"verifharness/vh"
)

// Layer 2: the real TCP listener. What drives the flushes in the agent is not the reader but runConnection + the
// connection wrapper: a flush happens when a read times out and when the read deadline has been renewed, and both can
// happen at most once per flush interval. So on a connection that lived for E, at most 2*floor(E/T)+2 flushes have
// happened, and only a flush (or the soft limit, not reached here) can separate a continuation line from its record:
// of the multi-line records whose lines were written in several TCP segments a few ms apart, at most that many may
// come out cut. A listener that flushes more often than that - say after every read - cuts nearly all of them.

type LRec struct {
	Lines int `json:"lines"` // 2-4 lines
	Split int `json:"split"` // 0: one write; 1: cut after the first line; 2: cut inside the second line; 3: one write per line
	GapUs int `json:"gapUs"` // pause between the writes of this record and after it
}

type LCase struct {
	FlushMs  int    `json:"flushMs"`  // defs.InputFlushInterval for this case
	WarmupPc int    `json:"warmupPc"` // pause after a first single-line record, in % of the flush interval
	Recs     []LRec `json:"recs"`
}

type recSink struct {
	mu   *sync.Mutex
	msgs *[][]byte
}

func (s recSink) Accept(m []byte) {
	s.mu.Lock()
	*s.msgs = append(*s.msgs, append([]byte(nil), m...))
	s.mu.Unlock()
}
func (s recSink) Flush() {}
func (s recSink) Close() {}

type recReceiver struct {
	mu   sync.Mutex
	msgs [][]byte
}

func (r *recReceiver) NewSink(string, base.ClientNumber) base.MessageReceiverSink {
	return recSink{&r.mu, &r.msgs}
}

func (r *recReceiver) snapshot() [][]byte {
	r.mu.Lock()
	defer r.mu.Unlock()
	return append([][]byte(nil), r.msgs...)
}

func lhead(i int) string {
	return fmt.Sprintf("<163>1 2019-08-15T15:50:%02d.000000+03:00 local my-app 123 fn - record %d first line", i%60, i)
}

func runListener(c LCase) vh.Result {
	res := vh.Result{}
	old := defs.InputFlushInterval
	defs.InputFlushInterval = time.Duration(c.FlushMs) * time.Millisecond
	defer func() { defs.InputFlushInterval = old }()
	T := defs.InputFlushInterval

	recv := &recReceiver{}
	stop := channels.NewSignalAwaitable()
	lsnr, addr, err := tcplistener.NewTCPLineListener(logger.Root(), "127.0.0.1:0", syslogprotocol.TestRecordStart, recv, stop)
	if err != nil {
		panic(err)
	}
	lsnr.Start()
	stopped := false
	stopAll := func() {
		if !stopped {
			stopped = true
			stop.Signal()
			lsnr.Stopped().Wait(10 * time.Second)
		}
	}
	defer stopAll()

	t0 := time.Now()
	conn, err := net.Dial("tcp", addr)
	if err != nil {
		panic(err)
	}
	_ = conn.(*net.TCPConn).SetNoDelay(true)
	write := func(s string, gap time.Duration) {
		if _, werr := conn.Write([]byte(s)); werr != nil {
			panic(werr)
		}
		if gap > 0 {
			time.Sleep(gap)
		}
	}
	write(lhead(0)+"\n", T*time.Duration(c.WarmupPc)/100)
	var want []string
	split := 0
	splitAfterFirstInterval := 0
	for i, r := range c.Recs {
		n := i + 1
		lines := []string{lhead(n)}
		for k := 1; k < r.Lines; k++ {
			lines = append(lines, fmt.Sprintf("\tcontinuation %d of record %d ..........", k, n))
		}
		full := ""
		for _, l := range lines {
			full += l + "\n"
		}
		want = append(want, full[:len(full)-1])
		gap := time.Duration(r.GapUs) * time.Microsecond
		if r.Split != 0 {
			split++
			if time.Since(t0) > T {
				splitAfterFirstInterval++
			}
		}
		switch r.Split {
		case 0:
			write(full, gap)
		case 1:
			write(lines[0]+"\n", gap)
			write(full[len(lines[0])+1:], gap)
		case 2:
			cut := len(lines[0]) + 1 + len(lines[1])/2
			write(full[:cut], gap)
			write(full[cut:], gap)
		default:
			for _, l := range lines {
				write(l+"\n", gap)
			}
		}
	}
	// a last single-line record; when it has come out (the close makes the listener emit what it holds) all the others have
	lastHead := lhead(len(c.Recs) + 1)
	write(lastHead+"\n", 0)
	_ = conn.Close()
	deadline := time.Now().Add(30 * time.Second)
	var got [][]byte
	for {
		got = recv.snapshot()
		if len(got) > 0 && bytes.HasPrefix(got[len(got)-1], []byte(lastHead)) {
			break
		}
		if time.Now().After(deadline) {
			res.Violation = vh.Fail("listener:record-lost", "the last record did not come out within 30 s of the close; %d messages emitted", len(got))
			res.NonTrivial = true
			return res
		}
		time.Sleep(time.Millisecond)
	}
	elapsed := time.Since(t0)
	stopAll()

	// every head exactly once and in order; intact = the whole record as one message
	emitted := map[string]int{}
	for _, m := range got {
		emitted[string(bytes.TrimRight(m, "\n"))]++
	}
	cut := 0
	firstCut := ""
	pos := 0
	for i, w := range want {
		head := lhead(i + 1)
		heads := 0
		for ; pos < len(got); pos++ {
			if bytes.HasPrefix(got[pos], []byte(head)) {
				heads++
				pos++
				break
			}
		}
		if heads != 1 {
			res.Violation = vh.Fail("listener:head-lost-or-out-of-order", "record %d: its first line was not found (in order) among the %d emitted messages", i+1, len(got))
			res.NonTrivial = true
			return res
		}
		if emitted[w] == 0 {
			cut++
			if firstCut == "" {
				firstCut = fmt.Sprintf("record %d (%d lines, split mode %d)", i+1, c.Recs[i].Lines, c.Recs[i].Split)
			}
		} else if emitted[w] > 1 {
			res.Violation = vh.Fail("listener:record-duplicated", "record %d came out %d times", i+1, emitted[w])
			return res
		}
	}
	maxFlushes := 2*int(elapsed/T) + 2
	res.NonTrivial = elapsed > T && splitAfterFirstInterval >= 10
	if res.NonTrivial {
		res.Classes = append(res.Classes, "connection-outlived-a-flush-interval-with->=10-split-records-after-it")
	}
	if cut > 0 {
		res.Classes = append(res.Classes, "some-record-cut-by-a-periodic-flush")
	}
	if c.WarmupPc >= 100 {
		res.Classes = append(res.Classes, "idle-pause-longer-than-the-interval")
	}
	if cut > maxFlushes {
		res.Violation = vh.Fail("listener:flushes-more-often-than-the-interval", "%d of %d multi-line records came out cut (first: %s) on a connection that lived %d ms with a flush interval of %d ms: at most %d flushes (one time-out and one deadline renewal per interval) can have separated lines, the gaps between the writes were <= %d us; %d records were written in more than one segment", cut, len(want), firstCut, elapsed.Milliseconds(), c.FlushMs, maxFlushes, maxGap(c), split)
	}
	return res
}

func maxGap(c LCase) int {
	m := 0
	for _, r := range c.Recs {
		if r.GapUs > m {
			m = r.GapUs
		}
	}
	return m
}

func genListener(t *rapid.T) LCase {
	c := LCase{FlushMs: rapid.SampledFrom([]int{150, 200, 300}).Draw(t, "flushMs"), WarmupPc: rapid.SampledFrom([]int{0, 50, 110, 130, 220}).Draw(t, "warmupPc")}
	n := rapid.IntRange(60, 120).Draw(t, "n")
	for i := 0; i < n; i++ {
		c.Recs = append(c.Recs, LRec{Lines: rapid.IntRange(2, 4).Draw(t, "lines"), Split: rapid.SampledFrom([]int{0, 1, 1, 2, 3}).Draw(t, "split"), GapUs: rapid.SampledFrom([]int{0, 200, 1000, 2000}).Draw(t, "gapUs")})
	}
	return c
}

func TestC08Listener(t *testing.T) {
	vh.Run(t, vh.Spec[LCase]{
		Name: "listener-cadence", Gen: genListener, Run: runListener, Quick: 24, Thorough: 300, ShrinkSeconds: 20,
		Rule: "layer 2, the real tcpLineListener (real TCP connection, connection wrapper, runConnection; flush interval - a defs variable - 150-300 ms): one single-line record, a pause of 0-2.2 intervals, then 60-120 multi-line records (2-4 lines) each written in 1-4 TCP segments (cut after the first line, inside the second, or one segment per line) 0-2 ms apart; oracle: every first line comes out exactly once and in order, no record twice, and the number of records that come out cut is at most 2*floor(E/T)+2 for the measured life time E of the connection (a time-out flush and a deadline-renewal flush can each happen at most once per interval T; measured generously, so load only weakens the bound); non-trivial = the connection outlived one interval and >= 10 records were written in several segments after that",
	})
}

// Single-line records through the real listener: "for streams of single-line records this also holds under any timing of
// the periodic flush". A record is written in two segments with a pause in between that may be longer than the flush
// interval (a time-out flush happens while half a line is buffered): every record must still come out whole, once, in order.

type SRec struct {
	Len     int `json:"len"`     // payload length
	CutPm   int `json:"cutPm"`   // 0 = one write; else the line is cut at this per-mille of its length
	PausePc int `json:"pausePc"` // pause between the two writes in % of the flush interval
	AfterPc int `json:"afterPc"` // pause after the record in % of the flush interval
}

type SCase struct {
	FlushMs int    `json:"flushMs"`
	Recs    []SRec `json:"recs"`
}

func runListenerSingle(c SCase) vh.Result {
	res := vh.Result{}
	old := defs.InputFlushInterval
	defs.InputFlushInterval = time.Duration(c.FlushMs) * time.Millisecond
	defer func() { defs.InputFlushInterval = old }()
	T := defs.InputFlushInterval
	recv := &recReceiver{}
	stop := channels.NewSignalAwaitable()
	lsnr, addr, err := tcplistener.NewTCPLineListener(logger.Root(), "127.0.0.1:0", syslogprotocol.TestRecordStart, recv, stop)
	if err != nil {
		panic(err)
	}
	lsnr.Start()
	defer func() {
		stop.Signal()
		lsnr.Stopped().Wait(10 * time.Second)
	}()
	conn, err := net.Dial("tcp", addr)
	if err != nil {
		panic(err)
	}
	_ = conn.(*net.TCPConn).SetNoDelay(true)
	var want []string
	midLinePause := false
	for i, r := range c.Recs {
		line := lhead(i) + " " + string(bytes.Repeat([]byte{byte('a' + i%26)}, r.Len))
		want = append(want, line)
		full := line + "\n"
		if r.CutPm > 0 {
			cut := len(full) * r.CutPm / 1000
			if cut < 1 {
				cut = 1
			}
			if cut >= len(full) {
				cut = len(full) - 1
			}
			if _, werr := conn.Write([]byte(full[:cut])); werr != nil {
				panic(werr)
			}
			if r.PausePc >= 100 {
				midLinePause = true
			}
			time.Sleep(T * time.Duration(r.PausePc) / 100)
			full = full[cut:]
		}
		if _, werr := conn.Write([]byte(full)); werr != nil {
			panic(werr)
		}
		time.Sleep(T * time.Duration(r.AfterPc) / 100)
	}
	_ = conn.Close()
	deadline := time.Now().Add(30 * time.Second)
	var got [][]byte
	for {
		got = recv.snapshot()
		if len(got) >= len(want) || time.Now().After(deadline) {
			break
		}
		time.Sleep(time.Millisecond)
	}
	time.Sleep(2 * time.Millisecond)
	got = recv.snapshot()
	res.NonTrivial = midLinePause
	if midLinePause {
		res.Classes = append(res.Classes, "pause-longer-than-the-flush-interval-inside-a-line")
	}
	for i := 0; i < len(want) || i < len(got); i++ {
		g, w := "<nothing>", "<nothing>"
		if i < len(got) {
			g = string(bytes.TrimRight(got[i], "\n"))
		}
		if i < len(want) {
			w = want[i]
		}
		if g != w {
			res.Violation = vh.Fail("listener:single-line-framing", "message %d of %d: got %.120q (%d bytes), sent %.120q (%d bytes); record %d was written with cut=%d/1000 pause=%d%% of the flush interval", i, len(want), g, len(g), w, len(w), i, recAt(c, i).CutPm, recAt(c, i).PausePc)
			return res
		}
	}
	return res
}

func recAt(c SCase, i int) SRec {
	if i < len(c.Recs) {
		return c.Recs[i]
	}
	return SRec{}
}

func genListenerSingle(t *rapid.T) SCase {
	c := SCase{FlushMs: rapid.SampledFrom([]int{30, 50}).Draw(t, "flushMs")}
	n := rapid.IntRange(3, 25).Draw(t, "n")
	long := 0
	for i := 0; i < n; i++ {
		r := SRec{Len: rapid.SampledFrom([]int{0, 1, 30, 200, 1500}).Draw(t, "len")}
		if rapid.Bool().Draw(t, "cut") {
			r.CutPm = rapid.IntRange(1, 999).Draw(t, "cutPm")
			r.PausePc = rapid.SampledFrom([]int{0, 30, 120, 250}).Draw(t, "pausePc")
		}
		r.AfterPc = rapid.SampledFrom([]int{0, 0, 0, 30, 120}).Draw(t, "afterPc")
		if r.PausePc >= 100 || r.AfterPc >= 100 {
			long++
			if long > 5 { // bound the duration of a case
				r.PausePc, r.AfterPc = 0, 0
			}
		}
		c.Recs = append(c.Recs, r)
	}
	return c
}

func TestC08ListenerSingle(t *testing.T) {
	vh.Run(t, vh.Spec[SCase]{
		Name: "listener-single-line", Gen: genListenerSingle, Run: runListenerSingle, Quick: 60, Thorough: 1500, ShrinkSeconds: 20,
		Rule: "layer 2, the real tcpLineListener (flush interval 30/50 ms): 3-25 single-line records of 60-1600 bytes, each written whole or cut at a random byte with a pause of 0 / 0.3 / 1.2 / 2.5 flush intervals between the two segments and between records; oracle: the emitted messages are exactly the lines sent, once and in order; non-trivial = a pause longer than the flush interval inside a line (a time-out flush happened while half a line was buffered)",
	})
}
