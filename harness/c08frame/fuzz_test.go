package c08frame

import (
	"testing"

	"verifharness/vh"
)

// FuzzFraming: coverage-guided exploration of streams, cuts and flushes with the reference framer (thorough tier).
func FuzzFraming(f *testing.F) { vh.FuzzSpec(f, genCase(true), run) }
