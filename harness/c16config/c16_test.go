// C16 — accepted configurations always instantiate; rejected ones fail cleanly.
package c16config

import (
	"bytes"
	"fmt"
	"github.com/relex/slog-agent/buffer/hybridbuffer"
	"os"
	"path/filepath"
	"regexp"
	"strings"
	"testing"

	"github.com/relex/gotils/logger"
	"github.com/relex/gotils/promexporter/promreg"
	"github.com/relex/slog-agent/base"
	"github.com/relex/slog-agent/base/bconfig"
	"github.com/relex/slog-agent/defs"
	"github.com/relex/slog-agent/run"
	"gopkg.in/yaml.v3"
	"pgregory.net/rapid"

	"verifharness/tprog"
	"verifharness/vh"
)

var workDir string

func init() {
	vh.QuietLogs(logger.FatalLevel)
	// scaled sizes: they only determine buffer allocations here
	defs.InputLogMaxMessageBytes = 8192
	defs.InputLogMaxRecordBytes = 8192 + 256
	defs.IntermediateChannelTimeout = 5e9
	defs.BufferShutDownTimeout = 10e9
	d, err := os.MkdirTemp("", "verif-c16-")
	if err != nil {
		panic(err)
	}
	workDir = d
	_ = os.Chdir(d) // mutated relative paths land here
}

func TestMain(m *testing.M) {
	code := m.Run()
	_ = os.Chdir("/")
	_ = os.RemoveAll(workDir)
	os.Exit(code)
}

// ---------------------------------------------------------------------------
// base configurations

var baseTexts = map[string]string{}

func baseText(name string, spec *tprog.FileSpec) string {
	if spec != nil {
		s := *spec
		s.BufferRoot = filepath.Join(workDir, "buf")
		return s.YAML()
	}
	if t, ok := baseTexts[name]; ok {
		return t
	}
	var text string
	switch name {
	case "sample":
		b, err := os.ReadFile(filepath.Join(vh.RepoDir(), "testdata", "config_sample.yml"))
		if err != nil {
			panic(err)
		}
		text = string(b)
		text = strings.ReplaceAll(text, "/tmp/slog-buffer-fluentd", filepath.Join(workDir, "buf", "fluentd"))
		text = strings.ReplaceAll(text, "/tmp/slog-buffer-datadog", filepath.Join(workDir, "buf", "datadog"))
		text = strings.ReplaceAll(text, "localhost:5140", "localhost:0")
	case "minimal":
		text = `anchors: []
schema:
  fields: [facility, level, time, host, app, pid, source, extradata, log, class, origin]
  maxFields: 12
inputs:
  - type: syslog
    address: localhost:0
    levelMapping: [off, fatal, crit, error, warn, notice, info, debug]
    extractions:
      - type: extractHead
        key: log
        pattern: '\[*\] - '
        maxLen: 100
        destKey: class
      - type: extract
        key: source
        pattern: '^(?P<class>[a-z]+)\.'
orchestration:
  type: singleton
  tag: single.tag
metricKeys: [host]
transformations:
  - type: mapValue
    key: level
    mapping:
      warn: WARNING
    default: OTHER
  - type: addFields
    fields:
      extradata: from-$origin-${pid[:2]}
  - type: replace
    key: log
    pattern: 'a+'
    replacement: 'A'
  - type: unescape
    key: log
  - type: redactEmail
    key: log
    metricLabel: redacted
  - type: parseTime
    key: time
    errorLabel: timeError
  - type: drop
    match:
      app: abandoned
    percentage: 100
    metricLabel: unwanted
  - type: drop
    match:
      app: dropme
    percentage: 100
    metricLabel: unwanted
  - type: drop
    match:
      app: !!str-start drop
    percentage: 50
    metricLabel: half
outputBufferPairs:
  - name: fwd
    buffer:
      type: hybridBuffer
      rootPath: ` + filepath.Join(workDir, "buf", "min") + `
      maxBufSize: 1MB
    output:
      type: fluentdForward
      serialization:
        environmentFields: [host]
        hiddenFields: [class]
        rewriteFields:
          log:
            - type: inline
              field: class
            - type: copy
          class:
            - type: inline
              field: pid
            - type: unescape
          host:
            - type: inline
              field: app
            - type: copy
      messageMode: Forward
      upstream:
        address: localhost:24224
        maxDuration: 30m
`
	default:
		panic("unknown base " + name)
	}
	baseTexts[name] = text
	return text
}

// ---------------------------------------------------------------------------
// YAML node mutation

type Mutation struct {
	Path  []int  `json:"path"`  // child indexes from the document's root content node
	Kind  string `json:"kind"`  // none | delete | empty | scalar
	Fault string `json:"fault"` // replacement value for kind=scalar
	Site  string `json:"site"`  // readable path, informational
}

type Case struct {
	Base string          `json:"base"` // sample | minimal | generated
	Spec *tprog.FileSpec `json:"spec,omitempty"`
	Mut  Mutation        `json:"mut"`
}

func parseDoc(text string) *yaml.Node {
	var doc yaml.Node
	if err := yaml.Unmarshal([]byte(text), &doc); err != nil {
		panic(fmt.Sprintf("base config is not YAML: %v", err))
	}
	return &doc
}

func nodeAt(doc *yaml.Node, path []int) (*yaml.Node, *yaml.Node, int) {
	var parent *yaml.Node
	n := doc.Content[0]
	idx := -1
	for _, i := range path {
		if i >= len(n.Content) {
			return nil, nil, -1
		}
		parent, idx = n, i
		n = n.Content[i]
	}
	return n, parent, idx
}

func applyMutation(text string, m Mutation) (string, bool) {
	if m.Kind == "none" {
		return text, true
	}
	doc := parseDoc(text)
	n, parent, idx := nodeAt(doc, m.Path)
	if n == nil || parent == nil {
		return "", false
	}
	switch m.Kind {
	case "delete":
		if parent.Kind == yaml.MappingNode {
			// idx points at the value; remove key and value
			if idx%2 != 1 {
				return "", false
			}
			parent.Content = append(parent.Content[:idx-1:idx-1], parent.Content[idx+1:]...)
		} else if parent.Kind == yaml.SequenceNode {
			parent.Content = append(parent.Content[:idx:idx], parent.Content[idx+1:]...)
		} else {
			return "", false
		}
	case "empty":
		if n.Kind != yaml.MappingNode && n.Kind != yaml.SequenceNode {
			return "", false
		}
		n.Content = nil
		n.Style = yaml.FlowStyle
	case "scalar":
		if n.Kind != yaml.ScalarNode {
			return "", false
		}
		n.Value = m.Fault
		if n.Tag == "!!int" || n.Tag == "!!bool" || n.Tag == "!!float" || n.Tag == "!!null" {
			n.Tag = ""
		}
		if n.Style == 0 && (n.Tag == "" || n.Tag == "!!str") {
			n.Style = yaml.DoubleQuotedStyle
			// keep numeric faults unquoted so that they reach integer fields
			if isNumeric(m.Fault) {
				n.Style = 0
			}
		}
	default:
		return "", false
	}
	out, err := yaml.Marshal(doc)
	if err != nil {
		return "", false
	}
	return string(out), true
}

func isNumeric(s string) bool {
	if s == "" {
		return false
	}
	for i, c := range s {
		if !(c >= '0' && c <= '9' || (i == 0 && c == '-')) {
			return false
		}
	}
	return true
}

var faultValues = []string{"nosuchfield", "", "$$", "$nosuch", "${log", "${log[99999999999999999999:]}", "${log[1:2:3]}", "[", "*", "foo*", "[a-", "(", "-1", "0", "101", "99999999999999999999", "true", "a,b", "!!str-any"}

// sites enumerates every mutation site of a document.
func sites(text string, fieldNames []string) []Mutation {
	doc := parseDoc(text)
	var out []Mutation
	faults := append(append([]string{}, faultValues...), fieldNames...)
	var walk func(n *yaml.Node, path []int, site string, parentKind yaml.Kind, isKey bool)
	walk = func(n *yaml.Node, path []int, site string, parentKind yaml.Kind, isKey bool) {
		p := append([]int(nil), path...)
		if len(path) > 0 && !isKey {
			out = append(out, Mutation{Path: p, Kind: "delete", Site: site})
		}
		switch n.Kind {
		case yaml.MappingNode:
			if len(path) > 0 {
				out = append(out, Mutation{Path: p, Kind: "empty", Site: site})
			}
			for i := 0; i+1 < len(n.Content); i += 2 {
				k := n.Content[i]
				walk(k, append(p, i), site+"."+k.Value+"(key)", n.Kind, true)
				walk(n.Content[i+1], append(p, i+1), site+"."+k.Value, n.Kind, false)
			}
		case yaml.SequenceNode:
			out = append(out, Mutation{Path: p, Kind: "empty", Site: site})
			for i, c := range n.Content {
				walk(c, append(p, i), fmt.Sprintf("%s[%d]", site, i), n.Kind, false)
			}
		case yaml.ScalarNode:
			if strings.HasSuffix(site, ".rootPath") || strings.Contains(site, "anchors") {
				return // directory paths are not expressions; faults there would only create directories elsewhere
			}
			for _, f := range faults {
				if f == n.Value {
					continue
				}
				out = append(out, Mutation{Path: p, Kind: "scalar", Fault: f, Site: site})
			}
		}
	}
	walk(doc.Content[0], nil, "", 0, false)
	return out
}

// ---------------------------------------------------------------------------
// run

var testLines [][]byte

func lines() [][]byte {
	if testLines != nil {
		return testLines
	}
	files, _ := filepath.Glob(filepath.Join(vh.RepoDir(), "testdata", "development", "*-input.log"))
	for _, f := range files {
		b, _ := os.ReadFile(f)
		for _, l := range bytes.Split(b, []byte("\n")) {
			if len(l) > 0 {
				testLines = append(testLines, l)
			}
		}
	}
	extra := []string{
		"<13>1 2020-01-01T00:00:00Z host1 appServ/vh.com 12 access.log - POST /x params=" + strings.Repeat("p", 300),
		"<11>1 - errors appServ 1 main.log - [Cls] - warn message user@example.com",
		"<12>1 2020-01-01T00:00:00.5+02:00 errors appServ 1 main.log:0123-abcd - plain \\n escaped \\t text",
		"<14>1 2020-01-01T00:00:00Z h abandoned 1 s - [ ] - blank class",
		"<14>1 2020-01-01T00:00:00Z h dropme 1 auth.log - a-b c d",
		"<0>1 2020-01-01T00:00:00Z kernhost.com server1 123456 x - POST y",
		"<165>1 2020-01-01T00:00:00Z " + strings.Repeat("h", 300) + " app 1 src - msg " + strings.Repeat("é", 200),
		"<13>1 2020-01-01T00:00:00Z host1 app 12 src - multi\nline\nmessage",
		"<13>1 2020-01-01T00:00:00Z host1 app 12 src - abc-def ghi jkl " + strings.Repeat("z", 2000),
	}
	for _, e := range extra {
		testLines = append(testLines, []byte(e))
	}
	return testLines
}

var fileSeq int

func runCase(c Case) vh.Result {
	res := vh.Result{NonTrivial: c.Mut.Kind != "none"}
	text := baseText(c.Base, c.Spec)
	fieldNames := tprog.AllFields()
	mutated, ok := applyMutation(text, c.Mut)
	if !ok {
		res.NonTrivial = false
		res.Classes = append(res.Classes, "mutation-not-applicable")
		return res
	}
	_ = fieldNames
	fileSeq++
	path := filepath.Join(workDir, fmt.Sprintf("conf-%d.yml", fileSeq%8))
	if err := os.WriteFile(path, []byte(mutated), 0o644); err != nil {
		panic(err)
	}
	res.Classes = append(res.Classes, "base-"+c.Base, "mutation-"+c.Mut.Kind)

	var conf run.Config
	var schema base.LogSchema
	var perr error
	if pf := vh.Protect(func() { conf, schema, _, perr = run.ParseConfigFile(path) }); pf != nil {
		pf.Key = "config:load-" + pf.Key
		pf.Msg = fmt.Sprintf("ParseConfigFile crashed on mutation %s %s %q\n%s", c.Mut.Site, c.Mut.Kind, c.Mut.Fault, pf.Msg)
		res.Violation = pf
		return res
	}
	if perr != nil {
		res.Classes = append(res.Classes, "rejected")
		return res
	}
	res.Classes = append(res.Classes, "accepted")
	if c.Mut.Kind != "none" {
		res.Classes = append(res.Classes, "accepted-mutant")
	}
	// "every field name referenced anywhere in the file is validated at load time": in the two hand-written bases every
	// scalar that holds a schema field name outside the schema's own field list is a reference to that field; with an
	// unknown name in its place the file must be refused
	if c.Mut.Kind == "scalar" && c.Mut.Fault == "nosuchfield" && (c.Base == "sample" || c.Base == "minimal") && !strings.HasPrefix(c.Mut.Site, ".schema.fields") {
		if n, _, _ := nodeAt(parseDoc(text), c.Mut.Path); n != nil {
			for _, f := range schemaFields(text) {
				if n.Value == f {
					res.Violation = vh.Fail("config:unknown-field-reference-accepted", "%s referenced the schema field %q; with the unknown name \"nosuchfield\" in its place the configuration is still accepted: the reference is not validated at load time", c.Mut.Site, f)
					return res
				}
			}
		}
	}
	// "every ... template variable ... is validated at load time": when a mutation takes a field out of the schema's field
	// list (deleted, emptied or renamed) and a template elsewhere in the file still has $field / ${field...}, the file
	// must be refused - whatever configurations this process has loaded before (the unmutated base always came first)
	if strings.HasPrefix(c.Mut.Site, ".schema.fields") && (c.Base == "sample" || c.Base == "minimal") {
		if n, _, _ := nodeAt(parseDoc(text), c.Mut.Path); n != nil && n.Value != "" {
			gone := true
			for _, f := range schemaFields(mutated) {
				if f == n.Value {
					gone = false
				}
			}
			if gone && regexp.MustCompile(`\$\{?`+regexp.QuoteMeta(n.Value)+`([^A-Za-z0-9_]|$)`).MatchString(mutated) {
				res.Violation = vh.Fail("config:template-variable-not-validated", "%s: the field %q is no longer in the schema (%s %q) but a template in the file still refers to it as a variable, and the configuration is accepted", c.Mut.Site, n.Value, c.Mut.Kind, c.Mut.Fault)
				return res
			}
			if gone {
				res.Classes = append(res.Classes, "schema-field-removed-and-accepted(no-template-refers-to-it)")
			}
		}
	}
	// accepted: everything must be constructible and able to process records
	bufRoot := filepath.Join(workDir, "buf")
	defer os.RemoveAll(bufRoot)
	// queues left by an earlier run: for the unmutated bases, the generated files, and one in six of the accepted mutants
	// (it triples the cost of a case)
	acceptedSeq++
	withLeftovers = c.Mut.Kind == "none" || c.Base == "generated" || acceptedSeq%6 == 0
	if withLeftovers {
		res.Classes = append(res.Classes, "started-on-queues-left-by-another-configuration")
	}
	if pf := vh.Protect(func() { instantiate(conf, schema) }); pf != nil {
		pf.Key = "config:accepted-" + pf.Key
		pf.Msg = fmt.Sprintf("accepted configuration crashed (mutation %s %s %q)\n%s", c.Mut.Site, c.Mut.Kind, c.Mut.Fault, pf.Msg)
		res.Violation = pf
		return res
	}
	return res
}

func instantiate(conf run.Config, schema base.LogSchema) {
	// 1. synchronous pipeline over all test lines, twice (state carried between records)
	if len(conf.Inputs) == 0 {
		return // an agent without inputs has nothing to instantiate per record
	}
	sp, err := vh.NewSyncPipeline(conf, schema, "verif.tag")
	if err != nil {
		panic(fmt.Sprintf("accepted configuration cannot create its parser: %v", err))
	}
	for round := 0; round < 2; round++ {
		for _, l := range lines() {
			sp.Process(l)
		}
	}
	sp.Flush()
	// every input config must be able to build its parser
	for _, in := range conf.Inputs[1:] {
		if _, err := in.Value.NewParser(logger.Root(), sp.Allocator, schema, sp.InputCount); err != nil {
			panic(fmt.Sprintf("accepted configuration cannot create a parser: %v", err))
		}
	}
	// 2. the real orchestrator with real bufferers and a recording consumer; pipelines are constructed in this goroutine
	//    when the first record of a key set arrives. Records were validated by step 1.
	clog := vh.NewConsumerLog()
	args := bconfig.PipelineArgs{
		Schema:              schema,
		Deallocator:         base.NewLogAllocator(schema, len(conf.OutputBuffersPairs)),
		MetricKeyLocators:   schema.MustCreateFieldLocators(conf.MetricKeys),
		TransformConfigs:    conf.Transformations,
		OutputBufferPairs:   conf.OutputBuffersPairs,
		NewConsumerOverride: clog.Override,
	}
	mf := promreg.NewMetricFactory("c16_", nil, nil)
	// The agent does not start on empty queue directories in general: an earlier run, possibly under another
	// configuration (other orchestration keys), may have left queues with chunks. Every output's buffer root gets queue
	// directories whose stored IDs have 1-4 values, each holding one real chunk of that output (made in step 1).
	if withLeftovers {
		leaveQueues(conf, sp, mf)
	}
	orch := conf.Orchestration.Value.StartOrchestrator(logger.Root(), args, mf)
	sink := orch.NewSink("client", 5)
	icount := base.NewLogInputCounter(mf.AddOrGetPrefix("in_", nil, nil))
	parser, err := conf.Inputs[0].Value.NewParser(logger.Root(), args.Deallocator, schema, icount)
	if err != nil {
		panic(err)
	}
	var batch []*base.LogRecord
	for _, l := range lines()[:12] {
		if r := parser.Parse(l, sp.FallbackTS); r != nil {
			batch = append(batch, r)
		}
	}
	if len(batch) > 0 {
		sink.Accept(batch)
	}
	sink.Tick()
	sink.Close()
	orch.Shutdown()
}

// leaveQueues creates, through the real bufferer of every output, queue directories for IDs with 1-4 comma-separated
// values and puts one chunk file into each.
var (
	withLeftovers bool // set per case by runCase
	acceptedSeq   int
)

var leftDirs = map[string]string{} // buffer root + NUL + queue ID -> queue directory

func leaveQueues(conf run.Config, sp *vh.SyncPipeline, mf *promreg.MetricFactory) {
	for i, pair := range conf.OutputBuffersPairs {
		hb, ok := pair.BufferConfig.Value.(*hybridbuffer.Config)
		if !ok || i >= len(sp.Chunks) || len(sp.Chunks[i]) == 0 {
			continue
		}
		chunk := sp.Chunks[i][0]
		match := pair.OutputConfig.Value.MatchChunkID
		if !match(chunk.ID) {
			continue
		}
		for n, id := range []string{"left", "left,over", "l,e,f", "l,e,f,t"} {
			if dir, ok := leftDirs[os.ExpandEnv(hb.RootPath)+"\x00"+id]; ok {
				if _, err := os.Stat(dir); err == nil { // made by an earlier case: only the chunk file has to be put back
					_ = os.WriteFile(filepath.Join(dir, chunk.ID), chunk.Data, 0o644)
					continue
				}
			}
			b := hb.NewBufferer(logger.Root(), id, match, mf.AddOrGetPrefix("pre_", []string{"o", "n"}, []string{fmt.Sprint(i), fmt.Sprint(n)}), false)
			b.Start()
			b.Destroy()
			b.Stopped().WaitForever()
			idFiles, _ := filepath.Glob(filepath.Join(os.ExpandEnv(hb.RootPath), "*", ".id"))
			for _, f := range idFiles {
				if got, err := os.ReadFile(f); err == nil && string(got) == id {
					_ = os.WriteFile(filepath.Join(filepath.Dir(f), chunk.ID), chunk.Data, 0o644)
					leftDirs[os.ExpandEnv(hb.RootPath)+"\x00"+id] = filepath.Dir(f)
				}
			}
		}
	}
}

// ---------------------------------------------------------------------------

func enumAll(yield func(Case) bool) {
	for _, name := range []string{"minimal", "sample"} {
		if !yield(Case{Base: name, Mut: Mutation{Kind: "none"}}) {
			return
		}
		text := baseText(name, nil)
		fields := schemaFields(text)
		ms := sites(text, fields)
		for i, m := range ms {
			if vh.NShards > 1 && i%vh.NShards != vh.Shard {
				continue
			}
			if !yield(Case{Base: name, Mut: m}) {
				return
			}
		}
	}
}

func schemaFields(text string) []string {
	var c struct {
		Schema struct {
			Fields []string `yaml:"fields"`
		} `yaml:"schema"`
	}
	_ = yaml.Unmarshal([]byte(text), &c)
	return c.Schema.Fields
}

func gen(t *rapid.T) Case {
	spec := tprog.GenFileSpec(t, true)
	c := Case{Base: "generated", Spec: &spec, Mut: Mutation{Kind: "none"}}
	if rapid.IntRange(0, 3).Draw(t, "mutate") > 0 {
		text := baseText("generated", &spec)
		ms := sites(text, tprog.AllFields())
		c.Mut = ms[rapid.IntRange(0, len(ms)-1).Draw(t, "site")]
	}
	return c
}

func TestC16Config(t *testing.T) {
	vh.Run(t, vh.Spec[Case]{
		Name: "config", Gen: gen, Run: runCase, Quick: 500, Thorough: 6000, Enum: enumAll,
		Rule: "site x fault enumeration on the YAML node tree of the sample and a second hand-written configuration (which also has rewrite chains on a hidden and on an environment field) (every node: delete, empty; every scalar: 19 fault values + every schema field name), plus rapid-generated valid configuration files (tprog grammar: extractions, byKeySet/singleton, 1-2 outputs, rewrites) with and without one random mutation; oracle = run.ParseConfigFile returns a value; if accepted, parser/transforms/serializers/chunk makers process 55 records twice synchronously and the real orchestrator with real buffers builds pipelines and processes records without panic or fault; non-trivial = a mutated configuration; distinct = (base, site, fault)",
	})
}
