// C02, second layer — the real Datadog client (output/datadog/clientworker.go, an anchor of the property) against a
// scripted HTTP upstream. The scripted-connection layer imitates this client's connection style ("sync"); here the
// client's own SendChunk runs: net/http request, status handling, time-out.
package c02client

import (
	"crypto/sha256"
	"fmt"
	"io"
	"net"
	"net/http"
	"os"
	"sort"
	"strings"
	"sync"
	"testing"
	"time"

	"github.com/relex/gotils/channels"
	"github.com/relex/gotils/logger"
	"github.com/relex/gotils/promexporter/promreg"
	"github.com/relex/slog-agent/base"
	"github.com/relex/slog-agent/output/datadog"
	"pgregory.net/rapid"

	"verifharness/vh"
)

// DDResp is what the upstream does with the n-th request that reaches it (arrival order).
type DDResp struct {
	Kind   string `json:"k"`           // status | slow | hang | reset | reset-after-body
	Status int    `json:"s,omitempty"` // for status / slow
	Delay  int    `json:"d,omitempty"` // ms, for slow (kept well below the client's time-out)
}

type DDCase struct {
	Responses []DDResp `json:"responses"` // per request in arrival order; afterwards every request is answered 200
	Sizes     []int    `json:"sizes"`     // chunk sizes in bytes (the number of chunks fed)
	FeedGaps  []int    `json:"feedGaps"`  // ms before feeding chunk i (index modulo length)
	StopAtReq int      `json:"stopAtReq"` // request the stop when the k-th request arrives at the upstream (0 = after the drain wait)
	TimeoutMs int      `json:"timeoutMs"` // the output's httpTimeout
}

type ddEvent struct {
	Kind   string // request answer consumed leftover finished stop-request
	Req    int
	Chunk  int // index of the chunk whose bytes the request body equals, -1 = none / unknown
	Status int
	Note   string
}

type ddWorld struct {
	mu     sync.Mutex
	events []ddEvent
	reqs   int
}

func (w *ddWorld) add(e ddEvent) {
	w.mu.Lock()
	w.events = append(w.events, e)
	w.mu.Unlock()
}

func ddChunkData(i, size int) []byte {
	// a pure function of (i, size), incompressible enough that no two chunks share a long prefix
	out := make([]byte, 0, size+32)
	seed := sha256.Sum256([]byte(fmt.Sprintf("dd-chunk-%d-%d", i, size)))
	for len(out) < size {
		out = append(out, seed[:]...)
		seed = sha256.Sum256(seed[:])
	}
	return out[:size]
}

func ddChunkID(i int) string { return fmt.Sprintf("%019d-%08d.dd", 1700000000000000000+int64(i)*1000, 0) }

func ddHistory(w *ddWorld) string {
	w.mu.Lock()
	defer w.mu.Unlock()
	var b strings.Builder
	for i, e := range w.events {
		fmt.Fprintf(&b, "  %3d %-12s req=%d chunk=%d status=%d %s\n", i, e.Kind, e.Req, e.Chunk, e.Status, e.Note)
		if b.Len() > 6000 {
			b.WriteString("  ...\n")
			break
		}
	}
	return b.String()
}

func runDatadog(c DDCase) vh.Result {
	res := vh.Result{}
	if c.TimeoutMs <= 0 {
		c.TimeoutMs = 60
	}
	timeout := time.Duration(c.TimeoutMs) * time.Millisecond
	w := &ddWorld{}
	nChunks := len(c.Sizes)
	datas := make([][]byte, nChunks)
	byHash := map[[32]byte]int{}
	for i, sz := range c.Sizes {
		datas[i] = ddChunkData(i, sz)
		byHash[sha256.Sum256(datas[i])] = i
	}

	input := make(chan base.LogChunk, nChunks+1)
	inputClosed := channels.NewSignalAwaitable()
	var stopMu sync.Mutex
	stopped := false
	stop := func() {
		stopMu.Lock()
		defer stopMu.Unlock()
		if !stopped {
			stopped = true
			close(input)
			inputClosed.Signal()
			w.add(ddEvent{Kind: "stop-request", Chunk: -1})
		}
	}
	isStopped := func() bool { stopMu.Lock(); defer stopMu.Unlock(); return stopped }

	// ---- scripted upstream
	ln, err := net.Listen("tcp", "127.0.0.1:0")
	if err != nil {
		panic("HARNESS-ERROR: listen: " + err.Error())
	}
	handler := http.HandlerFunc(func(rw http.ResponseWriter, r *http.Request) {
		w.mu.Lock()
		w.reqs++
		n := w.reqs
		w.mu.Unlock()
		if c.StopAtReq > 0 && n == c.StopAtReq {
			go stop()
		}
		op := DDResp{Kind: "status", Status: 200}
		if n-1 < len(c.Responses) {
			op = c.Responses[n-1]
		}
		hijackClose := func() {
			if hj, ok := rw.(http.Hijacker); ok {
				if conn, _, herr := hj.Hijack(); herr == nil {
					if tc, ok := conn.(*net.TCPConn); ok {
						_ = tc.SetLinger(0)
					}
					_ = conn.Close()
				}
			}
		}
		if op.Kind == "reset" {
			// the connection dies before the body has been read
			w.add(ddEvent{Kind: "request", Req: n, Chunk: -1, Note: "reset-before-body"})
			hijackClose()
			return
		}
		body, rerr := io.ReadAll(r.Body)
		idx := -1
		if rerr == nil {
			if i, ok := byHash[sha256.Sum256(body)]; ok {
				idx = i
			}
		}
		note := op.Kind
		if rerr != nil {
			note += " body-incomplete:" + rerr.Error()
		} else if idx < 0 {
			note += fmt.Sprintf(" body-of-%d-bytes-equals-no-chunk", len(body))
		}
		if r.Method != http.MethodPost {
			note += " method=" + r.Method
			idx = -1
		}
		w.add(ddEvent{Kind: "request", Req: n, Chunk: idx, Note: note})
		switch op.Kind {
		case "reset-after-body":
			hijackClose()
			return
		case "hang":
			time.Sleep(3*timeout + 20*time.Millisecond)
			op.Status = 200
		case "slow":
			time.Sleep(time.Duration(op.Delay) * time.Millisecond)
		}
		if op.Status == 0 {
			op.Status = 200
		}
		// recorded before it is written: whatever the client does with the answer comes later in the history
		w.add(ddEvent{Kind: "answer", Req: n, Chunk: idx, Status: op.Status, Note: op.Kind})
		rw.WriteHeader(op.Status)
		if op.Status >= 300 {
			_, _ = rw.Write([]byte(`{"errors":["scripted"]}`))
		}
	})
	srv := &http.Server{Handler: handler}
	go func() { _ = srv.Serve(ln) }()
	defer srv.Close()

	args := base.ChunkConsumerArgs{
		InputChannel:    input,
		InputClosed:     inputClosed,
		OnChunkConsumed: func(ch base.LogChunk) { w.add(ddEvent{Kind: "consumed", Chunk: ddIndex(ch.ID), Note: ddIntact(ch, datas)}) },
		OnChunkLeftover: func(ch base.LogChunk) { w.add(ddEvent{Kind: "leftover", Chunk: ddIndex(ch.ID), Note: ddIntact(ch, datas)}) },
		OnFinished:      func() { w.add(ddEvent{Kind: "finished", Chunk: -1}) },
	}
	_ = os.Setenv("DD_API_KEY", "verif-key")
	mf := promreg.NewMetricFactory("c02dd_", nil, nil)
	worker := datadog.NewClientWorker(logger.Root(), args, mf, datadog.UpstreamConfig{Address: "http://" + ln.Addr().String() + "/api/v2/logs", HTTPTimeout: timeout})
	worker.Start()

	fed := 0
	for i := 0; i < nChunks; i++ {
		if len(c.FeedGaps) > 0 {
			if g := c.FeedGaps[i%len(c.FeedGaps)]; g > 0 {
				time.Sleep(time.Duration(g) * time.Millisecond)
			}
		}
		stopMu.Lock()
		if stopped {
			stopMu.Unlock()
			break
		}
		input <- base.LogChunk{ID: ddChunkID(i), Data: datas[i]}
		fed++
		stopMu.Unlock()
	}
	countConsumed := func() int {
		w.mu.Lock()
		defer w.mu.Unlock()
		n := 0
		for _, e := range w.events {
			if e.Kind == "consumed" {
				n++
			}
		}
		return n
	}
	// every scripted fault is bounded (a hang ends at the client's time-out), afterwards the upstream answers 200: unless a
	// stop was requested everything fed has to be acknowledged
	drained := false
	deadline := time.Now().Add(20 * time.Second)
	for time.Now().Before(deadline) && !isStopped() {
		if countConsumed() >= fed {
			drained = true
			break
		}
		time.Sleep(2 * time.Millisecond)
	}
	if !drained && !isStopped() {
		res.NonTrivial = true
		res.Violation = vh.Fail("client:retransmission-stalled", "Datadog client: %d chunks were fed, the scripted faults are over and the upstream answers 200, no stop was requested - but 20 s later not all chunks have been acknowledged\n%s\n%s", fed, ddHistory(w), vh.GoroutineDump())
		stop()
		worker.Stopped().Wait(8 * time.Second)
		return res
	}
	stop()
	if !worker.Stopped().Wait(8*time.Second + 4*timeout) {
		res.NonTrivial = true
		res.Violation = vh.Fail("client:stop-hang", "Datadog client worker did not stop within 8 s of the stop request (httpTimeout %v)\n%s\n%s", timeout, ddHistory(w), vh.GoroutineDump())
		return res
	}
	remaining := map[int]bool{}
	for ch := range input {
		remaining[ddIndex(ch.ID)] = true
	}

	// ---- oracle over the history
	w.mu.Lock()
	events := append([]ddEvent(nil), w.events...)
	w.mu.Unlock()
	classes := map[string]bool{}
	acks := map[int]int{}       // chunk -> answers < 300 to a complete, identical body, not yet used by a consumed event
	answered2xx := map[int]bool{}
	resolved := map[int]string{}
	finished := false
	faultWhileUnresolved, stopInFlight := false, false
	outstanding := map[int]bool{} // chunks whose body reached the upstream and that are not resolved yet
	for _, e := range events {
		if finished && (e.Kind == "consumed" || e.Kind == "leftover") {
			res.Violation = vh.Fail("client:callback-after-finished", "Datadog client: %s(chunk %d) after OnFinished\n%s", e.Kind, e.Chunk, ddHistory(w))
			return res
		}
		switch e.Kind {
		case "request":
			if e.Chunk >= 0 {
				outstanding[e.Chunk] = true
				// oldest first, never skipping an older chunk that is still undelivered: when the body of chunk j arrives, every
				// older chunk that was fed has been answered with a success status before
				for i := 0; i < e.Chunk; i++ {
					if !answered2xx[i] && resolved[i] == "" {
						res.Violation = vh.Fail("client:skipped-older-chunk", "Datadog client: the body of chunk %d reached the upstream although the older chunk %d had never been answered with a success status\n%s", e.Chunk, i, ddHistory(w))
						return res
					}
				}
			} else {
				classes["request-"+strings.SplitN(e.Note, " ", 2)[0]] = true
			}
			if strings.HasPrefix(e.Note, "hang") {
				classes["request-left-unanswered-beyond-the-client-time-out"] = true
				faultWhileUnresolved = true
			}
			if strings.Contains(e.Note, "equals-no-chunk") {
				classes["body-equals-no-chunk"] = true
			}
		case "answer":
			if e.Status < 300 {
				if e.Chunk >= 0 {
					acks[e.Chunk]++
					answered2xx[e.Chunk] = true
				}
				if e.Note == "hang" {
					classes["answer-after-client-time-out"] = true
					if len(outstanding) > 0 {
						faultWhileUnresolved = true
					}
				}
			} else {
				classes[fmt.Sprintf("status-%d", e.Status)] = true
				faultWhileUnresolved = true
			}
		case "stop-request":
			if len(outstanding) > 0 {
				stopInFlight = true
			}
		case "consumed", "leftover":
			if e.Note != "" {
				res.Violation = vh.Fail("client:chunk-altered", "Datadog client: chunk %d was reported %s with %s\n%s", e.Chunk, e.Kind, e.Note, ddHistory(w))
				return res
			}
			if resolved[e.Chunk] != "" {
				res.Violation = vh.Fail("client:resolved-twice", "Datadog client: chunk %d reported %s and then %s\n%s", e.Chunk, resolved[e.Chunk], e.Kind, ddHistory(w))
				return res
			}
			if e.Kind == "consumed" {
				if acks[e.Chunk] == 0 {
					res.Violation = vh.Fail("client:consumed-without-ack", "Datadog client: chunk %d was reported delivered, but the upstream had not answered a complete, identical copy of it with a success status (status >= 300, a reset or a time-out is not an acknowledgement)\n%s", e.Chunk, ddHistory(w))
					return res
				}
				acks[e.Chunk]--
			}
			resolved[e.Chunk] = e.Kind
			delete(outstanding, e.Chunk)
		case "finished":
			if finished {
				res.Violation = vh.Fail("client:finished-twice", "Datadog client: OnFinished called twice\n%s", ddHistory(w))
				return res
			}
			finished = true
		}
	}
	for _, e := range events {
		if e.Kind == "request" && (strings.HasPrefix(e.Note, "reset")) {
			faultWhileUnresolved = true
		}
	}
	if !finished {
		res.Violation = vh.Fail("client:not-finished", "Datadog client worker stopped without calling OnFinished\n%s", ddHistory(w))
		return res
	}
	for i := 0; i < fed; i++ {
		if remaining[i] {
			if resolved[i] != "" {
				res.Violation = vh.Fail("client:resolved-twice", "Datadog client: chunk %d is still in the input channel but was reported %s\n%s", i, resolved[i], ddHistory(w))
				return res
			}
			continue
		}
		if resolved[i] == "" {
			res.Violation = vh.Fail("client:chunk-lost", "Datadog client: chunk %d was taken from the queue but neither reported delivered nor handed back\n%s", i, ddHistory(w))
			return res
		}
	}
	res.NonTrivial = faultWhileUnresolved || stopInFlight
	if stopInFlight {
		classes["stop-with-chunks-in-flight"] = true
	}
	if drained {
		classes["drained-before-stop"] = true
	}
	nl := 0
	for _, r := range resolved {
		if r == "leftover" {
			nl++
		}
	}
	if nl > 0 {
		classes["with-leftovers"] = true
	}
	for _, sz := range c.Sizes {
		if sz > 100000 {
			classes["chunk-over-100KB"] = true
		}
	}
	for k := range classes {
		res.Classes = append(res.Classes, k)
	}
	sort.Strings(res.Classes)
	return res
}

func ddIndex(id string) int {
	var ts int64
	if _, err := fmt.Sscanf(id[:19], "%d", &ts); err != nil {
		return -1
	}
	return int((ts - 1700000000000000000) / 1000)
}

func ddIntact(ch base.LogChunk, datas [][]byte) string {
	i := ddIndex(ch.ID)
	if i < 0 || i >= len(datas) {
		return "an unknown ID " + ch.ID
	}
	if string(ch.Data) != string(datas[i]) {
		return fmt.Sprintf("data that differs from what was queued (%d bytes, queued %d)", len(ch.Data), len(datas[i]))
	}
	return ""
}

func genDatadog(t *rapid.T) DDCase {
	var c DDCase
	c.TimeoutMs = rapid.SampledFrom([]int{40, 60, 100}).Draw(t, "timeout")
	n := rapid.IntRange(0, 14).Draw(t, "nresp")
	for i := 0; i < n; i++ {
		r := DDResp{Kind: "status", Status: 200}
		switch rapid.IntRange(0, 9).Draw(t, "kind") {
		case 0, 1, 2:
			r.Status = rapid.SampledFrom([]int{200, 201, 202, 204, 299}).Draw(t, "ok")
		case 3, 4, 5:
			r.Status = rapid.SampledFrom([]int{300, 301, 304, 400, 403, 408, 413, 429, 500, 502, 503, 599}).Draw(t, "bad")
		case 6:
			r.Kind = "slow"
			r.Delay = rapid.IntRange(1, c.TimeoutMs/4).Draw(t, "slowMs")
			r.Status = rapid.SampledFrom([]int{200, 202, 400, 500}).Draw(t, "slowStatus")
		case 7:
			r.Kind = "hang"
		case 8:
			r.Kind = "reset"
		case 9:
			r.Kind = "reset-after-body"
		}
		c.Responses = append(c.Responses, r)
	}
	nc := rapid.IntRange(0, 16).Draw(t, "chunks")
	for i := 0; i < nc; i++ {
		sz := rapid.SampledFrom([]int{1, 17, 300, 4096, 70000}).Draw(t, "size")
		if rapid.IntRange(0, 11).Draw(t, "big") == 0 {
			sz = rapid.IntRange(100001, 600000).Draw(t, "bigSize")
		}
		c.Sizes = append(c.Sizes, sz)
	}
	c.FeedGaps = rapid.SliceOfN(rapid.SampledFrom([]int{0, 0, 0, 1, 3, 20}), 1, 4).Draw(t, "gaps")
	if rapid.IntRange(0, 2).Draw(t, "stopEarly") > 0 {
		c.StopAtReq = rapid.IntRange(1, 24).Draw(t, "stopAt")
	}
	return c
}

func TestC02Datadog(t *testing.T) {
	vh.Run(t, vh.Spec[DDCase]{
		Name: "datadog-http", Gen: genDatadog, Run: runDatadog, Quick: 150, Thorough: 3000, ShrinkSeconds: 10,
		Rule: "the real Datadog client (datadog.NewClientWorker: net/http POST per chunk, status handling, httpTimeout 40-100 ms) against a scripted HTTP upstream: per request in arrival order a success status (200-299), a failure status (300-599), a slow answer, an answer that comes only after the client's time-out, a connection reset before or after the body was read; 0-16 chunks of 1 byte to 600 KB fed with gaps; stop when the k-th request arrives or after the drain wait; after the script every request is answered 200. Oracle over the joint history of upstream and callbacks: a chunk is reported delivered only after the upstream answered a complete, byte-identical copy of it with a status below 300; every chunk taken from the queue is resolved exactly once with unchanged ID and data, OnFinished last; a chunk's body reaches the upstream only after every older chunk was answered with success; without a stop everything is acknowledged within 20 s; the worker stops within 8 s. Non-trivial = a failure status, reset or time-out, or a stop with a request in flight",
	})
}
