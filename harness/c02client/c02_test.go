// C02 — the upstream client confirms a chunk only after its ACK and never loses one.
package c02client

import (
	"errors"
	"fmt"
	"os"
	"os/signal"
	"sort"
	"strings"
	"sync"
	"syscall"
	"testing"
	"time"

	"github.com/relex/gotils/channels"
	"github.com/relex/gotils/logger"
	"github.com/relex/gotils/promexporter/promreg"
	"github.com/relex/slog-agent/base"
	"github.com/relex/slog-agent/defs"
	"github.com/relex/slog-agent/output/baseoutput"
	"pgregory.net/rapid"

	"verifharness/vh"
)

func init() {
	vh.QuietLogs(logger.FatalLevel)
	defs.ForwarderRetryInterval = 2 * time.Millisecond
	defs.ForwarderPingInterval = 12 * time.Millisecond
	defs.ForwarderBatchAckTimeout = 40 * time.Millisecond
	defs.ForwarderBatchSendTimeoutBase = 40 * time.Millisecond
	defs.ForwarderAckerStopTimeout = 80 * time.Millisecond
	defs.IntermediateChannelTimeout = 3 * time.Second
	// SIGUSR1 is a soft-reconnect request; keep it from killing the test process when no session listens yet
	ch := make(chan os.Signal, 100)
	signal.Notify(ch, syscall.SIGUSR1)
	go func() {
		for range ch {
		}
	}()
}

// ---------------------------------------------------------------------------
// script

type OpScript struct {
	Outcome string `json:"o"`           // ok | error | block | wrongid (acks only) | late (acks only)
	Delay   int    `json:"d,omitempty"` // milliseconds the operation takes before its outcome
	N       int    `json:"n,omitempty"` // late: number of further successful sends on this connection to wait for
}

type ConnScript struct {
	Connect OpScript   `json:"connect"`
	Empty   bool       `json:"empty"` // ACK style: in-order empty ACKs (Datadog-like) instead of explicit IDs (Fluentd-like)
	Sync    bool       `json:"sync,omitempty"` // synchronous connection, exactly as the Datadog client implements the interface: SendChunk
	// returns after the upstream has answered (its result IS the acknowledgement) and ReadChunkAck returns ("", nil) at once, always
	Sends   []OpScript `json:"sends"`
	Acks    []OpScript `json:"acks"`
	Pings   []OpScript `json:"pings"`
}

type Case struct {
	Conns       []ConnScript `json:"conns"`     // per successive connection attempt; afterwards every attempt is healthy
	Chunks      int          `json:"chunks"`    // number of chunks fed
	FeedGaps    []int        `json:"feedGaps"`  // ms to wait before feeding chunk i (index modulo length)
	StopAtOp    int          `json:"stopAtOp"`  // request stop when the k-th I/O operation begins (0 = only at the end, after the drain wait)
	Sigusr1AtOp int          `json:"sigusr1At"` // send SIGUSR1 to the process when the k-th I/O operation begins (0 = never)
	MaxDuration int          `json:"maxDur"`    // ms, 0 = no periodic reconnect
	LastEmpty   bool         `json:"lastEmpty"` // ACK style of the healthy connections after the script
}

// ---------------------------------------------------------------------------
// history

type Event struct {
	Seq   int
	Kind  string // connect send ack ping close consumed leftover finished
	Conn  int
	Chunk string // chunk ID (send / consumed / leftover), acknowledged chunk ID (ack, after resolving in-order)
	OK    bool
	Note  string
}

type world struct {
	mu       sync.Mutex
	c        Case
	events   []Event
	ops      int // I/O operations begun
	conns    int
	stop     func()
	stopOnce sync.Once
	usr1Once sync.Once
}

func (w *world) add(e Event) {
	w.mu.Lock()
	e.Seq = len(w.events)
	w.events = append(w.events, e)
	w.mu.Unlock()
}

// beginOp is called at the start of every I/O operation (connect, send, ack-read, ping).
func (w *world) beginOp() {
	w.mu.Lock()
	w.ops++
	n := w.ops
	w.mu.Unlock()
	if w.c.Sigusr1AtOp > 0 && n == w.c.Sigusr1AtOp {
		w.usr1Once.Do(func() { _ = syscall.Kill(os.Getpid(), syscall.SIGUSR1) })
	}
	if w.c.StopAtOp > 0 && n == w.c.StopAtOp {
		w.stopOnce.Do(w.stop)
	}
}

type mockConn struct {
	w       *world
	id      int
	script  ConnScript
	mu      sync.Mutex
	nSend   int
	nAck    int
	nPing   int
	sentOK  []string // successfully sent and not yet acknowledged, in order
	okSends int
	closed  chan struct{}
	once    sync.Once
	sendCnd *sync.Cond
}

var errScripted = errors.New("scripted failure")
var errClosed = errors.New("use of closed connection (scripted)")
var errDeadline = errors.New("i/o timeout (scripted)")

func (c *mockConn) Logger() logger.Logger { return logger.Root() }

func (c *mockConn) Close() {
	c.once.Do(func() {
		close(c.closed)
		c.w.add(Event{Kind: "close", Conn: c.id})
		c.mu.Lock()
		c.sendCnd.Broadcast()
		c.mu.Unlock()
	})
}

func (c *mockConn) isClosed() bool {
	select {
	case <-c.closed:
		return true
	default:
		return false
	}
}

func pick(l []OpScript, i int) OpScript {
	if i < len(l) {
		return l[i]
	}
	return OpScript{Outcome: "ok"}
}

// wait sleeps for the op's delay; returns false if the connection was closed meanwhile
func (c *mockConn) wait(ms int, deadline time.Time) error {
	if ms <= 0 {
		if c.isClosed() {
			return errClosed
		}
		return nil
	}
	d := time.Duration(ms) * time.Millisecond
	timer := time.NewTimer(d)
	defer timer.Stop()
	select {
	case <-c.closed:
		return errClosed
	case <-timer.C:
		return nil
	}
}

func (c *mockConn) block(deadline time.Time) error {
	d := time.Until(deadline)
	if d < 0 {
		d = 0
	}
	timer := time.NewTimer(d)
	defer timer.Stop()
	select {
	case <-c.closed:
		return errClosed
	case <-timer.C:
		return errDeadline
	}
}

func (c *mockConn) SendChunk(chunk base.LogChunk, deadline time.Time) error {
	c.w.beginOp()
	c.mu.Lock()
	op := pick(c.script.Sends, c.nSend)
	c.nSend++
	c.mu.Unlock()
	var err error
	if err = c.wait(op.Delay, deadline); err == nil {
		switch op.Outcome {
		case "error":
			err = errScripted
		case "block":
			err = c.block(deadline)
		}
	}
	if err == nil {
		c.mu.Lock()
		c.sentOK = append(c.sentOK, chunk.ID)
		c.okSends++
		c.sendCnd.Broadcast()
		c.mu.Unlock()
	}
	note := op.Outcome
	if c.script.Sync && err == nil {
		note = "sync-ok" // the successful synchronous send is the upstream's acknowledgement of this chunk
	}
	c.w.add(Event{Kind: "send", Conn: c.id, Chunk: chunk.ID, OK: err == nil, Note: note})
	return err
}

func (c *mockConn) SendPing(deadline time.Time) error {
	c.w.beginOp()
	c.mu.Lock()
	op := pick(c.script.Pings, c.nPing)
	c.nPing++
	c.mu.Unlock()
	err := c.wait(op.Delay, deadline)
	if err == nil && op.Outcome != "ok" {
		err = errScripted
	}
	c.w.add(Event{Kind: "ping", Conn: c.id, OK: err == nil})
	return err
}

func (c *mockConn) ReadChunkAck(deadline time.Time) (string, error) {
	if c.script.Sync {
		c.w.beginOp()
		c.w.add(Event{Kind: "ack", Conn: c.id, Chunk: "", OK: true, Note: "sync"})
		return "", nil
	}
	c.w.beginOp()
	c.mu.Lock()
	op := pick(c.script.Acks, c.nAck)
	c.nAck++
	c.mu.Unlock()
	err := c.wait(op.Delay, deadline)
	if err == nil {
		switch op.Outcome {
		case "error":
			err = errScripted
		case "block":
			err = c.block(deadline)
		case "wrongid":
			if !c.script.Empty { // an in-order connection has no IDs to get wrong
				c.w.add(Event{Kind: "ack", Conn: c.id, Chunk: "", OK: true, Note: "wrongid"})
				return fmt.Sprintf("bogus-%d-%d", c.id, c.nAck), nil
			}
		case "late":
			// the upstream answers only after N more chunks have been completely received on this connection
			c.mu.Lock()
			target := c.okSends + op.N
			stop := time.AfterFunc(time.Until(deadline), func() { c.mu.Lock(); c.sendCnd.Broadcast(); c.mu.Unlock() })
			for c.okSends < target && !c.isClosed() && time.Now().Before(deadline) {
				c.sendCnd.Wait()
			}
			stop.Stop()
			c.mu.Unlock()
			if c.isClosed() {
				err = errClosed
			} else if !time.Now().Before(deadline) {
				err = errDeadline
			}
		}
	}
	if err != nil {
		c.w.add(Event{Kind: "ack", Conn: c.id, OK: false, Note: op.Outcome})
		return "", err
	}
	// a real upstream acknowledges a chunk it has completely received: the oldest one not yet acknowledged;
	// wait for one to exist (until closed / deadline)
	c.mu.Lock()
	stop := time.AfterFunc(time.Until(deadline), func() { c.mu.Lock(); c.sendCnd.Broadcast(); c.mu.Unlock() })
	for len(c.sentOK) == 0 && !c.isClosed() && time.Now().Before(deadline) {
		c.sendCnd.Wait()
	}
	stop.Stop()
	if len(c.sentOK) == 0 {
		c.mu.Unlock()
		e := errDeadline
		if c.isClosed() {
			e = errClosed
		}
		c.w.add(Event{Kind: "ack", Conn: c.id, OK: false, Note: "nothing-to-ack"})
		return "", e
	}
	id := c.sentOK[0]
	c.sentOK = c.sentOK[1:]
	c.mu.Unlock()
	c.w.add(Event{Kind: "ack", Conn: c.id, Chunk: id, OK: true, Note: op.Outcome})
	if c.script.Empty {
		return "", nil
	}
	return id, nil
}

// ---------------------------------------------------------------------------

func chunkID(i int) string { return fmt.Sprintf("%019d-%08d.ff", 1700000000000000000+int64(i)*1000, 0) }

func runCase(c Case) vh.Result {
	res := vh.Result{}
	input := make(chan base.LogChunk, c.Chunks+1)
	inputClosed := channels.NewSignalAwaitable()
	w := &world{c: c}
	var stopMu sync.Mutex
	stopped := false
	w.stop = func() {
		stopMu.Lock()
		defer stopMu.Unlock()
		if !stopped {
			stopped = true
			close(input)
			inputClosed.Signal()
			w.add(Event{Kind: "stop-request"})
		}
	}
	feedDone := make(chan struct{})
	args := base.ChunkConsumerArgs{
		InputChannel:    input,
		InputClosed:     inputClosed,
		OnChunkConsumed: func(ch base.LogChunk) { w.add(Event{Kind: "consumed", Chunk: ch.ID}) },
		OnChunkLeftover: func(ch base.LogChunk) { w.add(Event{Kind: "leftover", Chunk: ch.ID}) },
		OnFinished:      func() { w.add(Event{Kind: "finished"}) },
	}
	openConn := func() (baseoutput.ClosableClientConnection, error) {
		w.beginOp()
		w.mu.Lock()
		id := w.conns
		w.conns++
		w.mu.Unlock()
		script := ConnScript{Connect: OpScript{Outcome: "ok"}, Empty: c.LastEmpty}
		if id < len(c.Conns) {
			script = c.Conns[id]
		}
		if script.Connect.Delay > 0 {
			time.Sleep(time.Duration(script.Connect.Delay) * time.Millisecond)
		}
		switch script.Connect.Outcome {
		case "error":
			w.add(Event{Kind: "connect", Conn: id, OK: false})
			return nil, errScripted
		case "block":
			time.Sleep(30 * time.Millisecond) // a connect that hangs until its timeout
			w.add(Event{Kind: "connect", Conn: id, OK: false, Note: "timeout"})
			return nil, errDeadline
		}
		mc := &mockConn{w: w, id: id, script: script, closed: make(chan struct{})}
		mc.sendCnd = sync.NewCond(&mc.mu)
		w.add(Event{Kind: "connect", Conn: id, OK: true})
		return mc, nil
	}
	mf := promreg.NewMetricFactory("c02_", nil, nil)
	worker := baseoutput.NewClientWorker(logger.Root(), args, mf, openConn, time.Duration(c.MaxDuration)*time.Millisecond)
	worker.Start()
	// feeder
	fed := 0
	go func() {
		defer close(feedDone)
		for i := 0; i < c.Chunks; i++ {
			if len(c.FeedGaps) > 0 {
				if g := c.FeedGaps[i%len(c.FeedGaps)]; g > 0 {
					time.Sleep(time.Duration(g) * time.Millisecond)
				}
			}
			stopMu.Lock()
			if stopped {
				stopMu.Unlock()
				return
			}
			input <- base.LogChunk{ID: chunkID(i), Data: []byte(fmt.Sprintf("data-%d", i))}
			fed++
			stopMu.Unlock()
		}
	}()
	<-feedDone
	// drain wait: until everything fed is consumed, or the budget is used up, or a stop was requested by the script
	drained := false
	deadline := time.Now().Add(400 * time.Millisecond)
	for time.Now().Before(deadline) {
		stopMu.Lock()
		s := stopped
		stopMu.Unlock()
		if s {
			break
		}
		w.mu.Lock()
		n := 0
		for _, e := range w.events {
			if e.Kind == "consumed" {
				n++
			}
		}
		w.mu.Unlock()
		if n >= fed {
			drained = true
			break
		}
		time.Sleep(2 * time.Millisecond)
	}
	// Retransmission "until acknowledged": every scripted operation is bounded (blocks end at their deadline, <= 80 ms),
	// after the script every connection is healthy, and no stop has been requested - so everything fed has to be
	// acknowledged eventually. If the short budget above was not enough, wait much longer than all scripted delays and
	// time-outs together can take before calling it a stall.
	stopMu.Lock()
	stoppedByScript := stopped
	stopMu.Unlock()
	drainedLate := false
	// An ACK for an unknown ID costs the acknowledger one read (it reads one ACK per chunk handed to it): the ACKs of the
	// last chunks then stay unread until more traffic comes or the session ends. Every valid configuration has a maximum
	// session age (fluentdForward refuses maxDuration 0), which turns them into leftovers that are retransmitted; a script
	// with bogus ACKs and no session age is outside what a real client worker is given, so nothing is demanded there.
	bogusWithoutSessionAge := false
	if c.MaxDuration == 0 {
		for _, cs := range c.Conns {
			for _, a := range cs.Acks {
				if a.Outcome == "wrongid" {
					bogusWithoutSessionAge = true
				}
			}
		}
	}
	if !drained && !stoppedByScript && !bogusWithoutSessionAge {
		deadline = time.Now().Add(15 * time.Second)
		for time.Now().Before(deadline) && !drained {
			stopMu.Lock()
			s := stopped
			stopMu.Unlock()
			if s {
				break
			}
			w.mu.Lock()
			n := 0
			for _, e := range w.events {
				if e.Kind == "consumed" {
					n++
				}
			}
			w.mu.Unlock()
			if n >= fed {
				drained = true
				drainedLate = true
			}
			time.Sleep(5 * time.Millisecond)
		}
		stopMu.Lock()
		s := stopped
		stopMu.Unlock()
		if !drained && !s {
			res.NonTrivial = true
			res.Violation = vh.Fail("client:retransmission-stalled", "%d chunks were fed, every scripted fault is over and all further connections are healthy, no stop was requested - but 15 s later not all chunks have been acknowledged: the client neither reconnects nor retransmits\n%s\n%s", fed, history(w), vh.GoroutineDump())
			w.stopOnce.Do(w.stop)
			worker.Stopped().Wait(8 * time.Second)
			return res
		}
	}
	w.stopOnce.Do(w.stop)
	if !worker.Stopped().Wait(8 * time.Second) {
		res.NonTrivial = true
		res.Violation = vh.Fail("client:stop-hang", "client worker did not stop within 8s of the stop request (scaled timeouts are <=80ms)\n%s\n%s", history(w), vh.GoroutineDump())
		return res
	}
	remaining := map[string]bool{}
	for ch := range input {
		remaining[ch.ID] = true
	}

	// ---- oracle over the history
	w.mu.Lock()
	events := append([]Event(nil), w.events...)
	w.mu.Unlock()
	resolved := map[string]string{}
	sentOKOn := map[string]map[int]int{}  // chunk -> conn -> seq of the successful send
	ackAvail := map[string][]int{}        // chunk -> seqs of ack events for it not yet used by a consumed event
	finishedAt := -1
	faultWhileUnacked, stopInFlight := false, false
	unackedNow := map[string]bool{}
	classes := map[string]bool{}
	if drainedLate {
		classes["drained-only-after-the-short-budget"] = true
	}
	lastSentOnConn := map[int]string{}
	sentEverOn := map[int]map[string]bool{}
	taken := map[string]bool{}
	for _, e := range events {
		switch e.Kind {
		case "connect":
			if !e.OK {
				classes["connect-failure"] = true
				if len(unackedNow) > 0 {
					faultWhileUnacked = true
				}
			}
		case "send":
			taken[e.Chunk] = true
			if prev := lastSentOnConn[e.Conn]; prev != "" && !(prev < e.Chunk) {
				res.Violation = vh.Fail("client:send-order", "connection %d: chunk %s sent after %s\n%s", e.Conn, e.Chunk, prev, history(w))
				return res
			}
			lastSentOnConn[e.Conn] = e.Chunk
			if sentEverOn[e.Conn] == nil {
				sentEverOn[e.Conn] = map[string]bool{}
			}
			// no unresolved older chunk may be skipped: every taken, unresolved chunk older than this one must already have been sent on this connection
			for id := range taken {
				if id < e.Chunk && resolved[id] == "" && !sentEverOn[e.Conn][id] {
					res.Violation = vh.Fail("client:skipped-older-chunk", "connection %d: chunk %s transmitted while older unresolved chunk %s had not been transmitted on this connection\n%s", e.Conn, e.Chunk, id, history(w))
					return res
				}
			}
			sentEverOn[e.Conn][e.Chunk] = true
			if e.OK {
				if sentOKOn[e.Chunk] == nil {
					sentOKOn[e.Chunk] = map[int]int{}
				}
				sentOKOn[e.Chunk][e.Conn] = e.Seq
				unackedNow[e.Chunk] = true
				if e.Note == "sync-ok" {
					ackAvail[e.Chunk] = append(ackAvail[e.Chunk], e.Seq)
					classes["synchronous-connection"] = true
				}
			} else {
				classes["send-"+e.Note] = true
				if len(unackedNow) > 0 {
					faultWhileUnacked = true
				}
			}
		case "ack":
			if e.OK && e.Chunk != "" {
				ackAvail[e.Chunk] = append(ackAvail[e.Chunk], e.Seq)
			}
			if e.OK && e.Note == "wrongid" {
				classes["ack-wrong-id"] = true
				if len(unackedNow) > 0 {
					faultWhileUnacked = true
				}
			}
			if e.OK && e.Note == "late" {
				classes["ack-late"] = true
			}
			if !e.OK && e.Note != "nothing-to-ack" && e.Note != "ok" {
				classes["ack-"+e.Note] = true
				if len(unackedNow) > 0 {
					faultWhileUnacked = true
				}
			}
		case "ping":
			if !e.OK {
				classes["ping-failure"] = true
			}
		case "stop-request":
			if len(unackedNow) > 0 {
				stopInFlight = true
			}
		case "consumed":
			taken[e.Chunk] = true
			if resolved[e.Chunk] != "" {
				res.Violation = vh.Fail("client:resolved-twice", "chunk %s reported %s and then consumed\n%s", e.Chunk, resolved[e.Chunk], history(w))
				return res
			}
			acks := ackAvail[e.Chunk]
			if len(acks) == 0 {
				res.Violation = vh.Fail("client:consumed-without-ack", "chunk %s reported delivered but the upstream never acknowledged it\n%s", e.Chunk, history(w))
				return res
			}
			ackAvail[e.Chunk] = acks[1:]
			resolved[e.Chunk] = "consumed"
			delete(unackedNow, e.Chunk)
		case "leftover":
			taken[e.Chunk] = true
			if resolved[e.Chunk] != "" {
				res.Violation = vh.Fail("client:resolved-twice", "chunk %s reported %s and then leftover\n%s", e.Chunk, resolved[e.Chunk], history(w))
				return res
			}
			resolved[e.Chunk] = "leftover"
			delete(unackedNow, e.Chunk)
		case "finished":
			if finishedAt >= 0 {
				res.Violation = vh.Fail("client:finished-twice", "OnFinished called twice\n%s", history(w))
				return res
			}
			finishedAt = e.Seq
		}
		if finishedAt >= 0 && e.Seq > finishedAt && (e.Kind == "consumed" || e.Kind == "leftover") {
			res.Violation = vh.Fail("client:callback-after-finished", "%s(%s) after OnFinished\n%s", e.Kind, e.Chunk, history(w))
			return res
		}
	}
	if finishedAt < 0 {
		res.Violation = vh.Fail("client:not-finished", "worker stopped without calling OnFinished\n%s", history(w))
		return res
	}
	for i := 0; i < fed; i++ {
		id := chunkID(i)
		if remaining[id] {
			if resolved[id] != "" {
				res.Violation = vh.Fail("client:resolved-twice", "chunk %s is still in the input channel but was reported %s\n%s", id, resolved[id], history(w))
				return res
			}
			continue
		}
		if resolved[id] == "" {
			res.Violation = vh.Fail("client:chunk-lost", "chunk %s was taken from the queue but neither reported delivered nor handed back\n%s", id, history(w))
			return res
		}
	}
	res.NonTrivial = faultWhileUnacked || stopInFlight
	if faultWhileUnacked {
		classes["fault-while-chunks-unacked"] = true
	}
	if stopInFlight {
		classes["stop-with-chunks-in-flight"] = true
	}
	if c.MaxDuration > 0 {
		classes["max-session-age"] = true
	}
	if c.Sigusr1AtOp > 0 {
		classes["sigusr1"] = true
	}
	if c.StopAtOp == 0 {
		if drained {
			classes["drained-before-stop"] = true
		} else {
			classes["not-drained-within-budget"] = true
		}
	}
	nl := 0
	for _, r := range resolved {
		if r == "leftover" {
			nl++
		}
	}
	if nl > 0 {
		classes["with-leftovers"] = true
	}
	for k := range classes {
		res.Classes = append(res.Classes, k)
	}
	sort.Strings(res.Classes)
	return res
}

func history(w *world) string {
	w.mu.Lock()
	defer w.mu.Unlock()
	var b strings.Builder
	for _, e := range w.events {
		id := e.Chunk
		if len(id) > 28 {
			id = "#" + strings.TrimLeft(id[10:19], "0")
		}
		fmt.Fprintf(&b, "  %3d %-12s conn=%d chunk=%s ok=%v %s\n", e.Seq, e.Kind, e.Conn, id, e.OK, e.Note)
		if b.Len() > 6000 {
			b.WriteString("  ...\n")
			break
		}
	}
	return b.String()
}

// ---------------------------------------------------------------------------

func genOps(t *rapid.T, label string, outcomes []string, maxN int) []OpScript {
	n := rapid.IntRange(0, maxN).Draw(t, label+"N")
	var out []OpScript
	for i := 0; i < n; i++ {
		op := OpScript{Outcome: "ok"}
		if rapid.IntRange(0, 2).Draw(t, label+"Fault") == 0 {
			op.Outcome = rapid.SampledFrom(outcomes).Draw(t, label+"O")
		}
		if rapid.IntRange(0, 3).Draw(t, label+"Slow") == 0 {
			op.Delay = rapid.IntRange(1, 4).Draw(t, label+"D")
		}
		if op.Outcome == "late" {
			op.N = rapid.IntRange(1, 3).Draw(t, label+"LateN")
		}
		out = append(out, op)
	}
	return out
}

func gen(t *rapid.T) Case {
	var c Case
	if rapid.IntRange(0, 11).Draw(t, "bigBacklog") == 0 {
		// a session that ends with thousands of chunks sent and unacknowledged (every ACK names an unknown ID, so nothing is
		// ever resolved): whatever the two goroutines have to hand over to each other at the end of a session takes its
		// longest then
		n := rapid.IntRange(3000, 4500).Draw(t, "bigN")
		cs := ConnScript{Connect: OpScript{Outcome: "ok"}}
		for i := 0; i < n; i++ {
			cs.Acks = append(cs.Acks, OpScript{Outcome: "wrongid"})
		}
		return Case{Conns: []ConnScript{cs}, Chunks: n, FeedGaps: []int{0}, StopAtOp: rapid.IntRange(n, 2*n).Draw(t, "bigStopAt")}
	}
	nconn := rapid.IntRange(0, 5).Draw(t, "nconns")
	for i := 0; i < nconn; i++ {
		cs := ConnScript{Connect: OpScript{Outcome: rapid.SampledFrom([]string{"ok", "ok", "ok", "error", "block"}).Draw(t, "connect")}}
		cs.Empty = rapid.IntRange(0, 3).Draw(t, "emptyStyle") == 0
		if cs.Empty && rapid.Bool().Draw(t, "sync") {
			cs.Sync = true
		}
		cs.Connect.Delay = rapid.SampledFrom([]int{0, 0, 1, 3}).Draw(t, "connectDelay")
		cs.Sends = genOps(t, "send", []string{"error", "block"}, 6)
		cs.Acks = genOps(t, "ack", []string{"error", "block", "wrongid", "late"}, 6)
		cs.Pings = genOps(t, "ping", []string{"error"}, 2)
		c.Conns = append(c.Conns, cs)
	}
	c.LastEmpty = rapid.IntRange(0, 3).Draw(t, "lastEmpty") == 0
	c.Chunks = rapid.IntRange(0, 30).Draw(t, "chunks")
	c.FeedGaps = rapid.SliceOfN(rapid.SampledFrom([]int{0, 0, 0, 1, 2, 15}), 1, 4).Draw(t, "gaps")
	if rapid.IntRange(0, 2).Draw(t, "stopEarly") > 0 {
		c.StopAtOp = rapid.IntRange(1, 40).Draw(t, "stopAt")
	}
	if rapid.IntRange(0, 5).Draw(t, "usr1") == 0 {
		c.Sigusr1AtOp = rapid.IntRange(1, 30).Draw(t, "usr1At")
	}
	if rapid.IntRange(0, 3).Draw(t, "maxDur") == 0 {
		c.MaxDuration = rapid.IntRange(1, 20).Draw(t, "maxDurMs")
	}
	return c
}

func TestC02Client(t *testing.T) {
	vh.Run(t, vh.Spec[Case]{
		Name: "client", Gen: gen, Run: runCase, Quick: 250, Thorough: 4000, ShrinkSeconds: 6,
		Rule: "the real baseoutput.ClientWorker driven by a scripted ClosableClientConnection: 0-5 scripted connection attempts (connect ok/error/hang; explicit-ID, in-order empty ACK style, or a synchronous connection whose ACK read returns at once as the Datadog client's does), per connection up to 6 scripted send outcomes (ok/error/block until closed or deadline), 6 ACK-read outcomes (ok/error/block/wrong ID/late after n more sends) and ping outcomes, per-operation delays, 0-30 chunks fed with gaps (one case in twelve: 3000-4500 chunks, every ACK naming an unknown ID, stop in the middle - a session that ends with thousands of chunks sent and unacknowledged), stop request when the k-th I/O operation begins or after a drain wait, SIGUSR1 and max-session-age reconnects; afterwards everything is healthy. Oracle over the recorded history: consumed only after an ACK for that chunk on a connection where its send succeeded; every chunk taken from the queue resolved exactly once (consumed xor leftover), none twice, OnFinished last; sends per connection in increasing ID order without skipping an older unresolved chunk; worker stops within 8 s. Non-trivial = an injected fault while chunks were un-ACKed, or a stop with chunks in flight",
	})
}
