// C17 — configuration reload is safe at any moment (API level: ReloadableOrchestrator with recording, gated fakes).
package c17reload

import (
	"bytes"
	"errors"
	"fmt"
	"runtime"
	"sort"
	"strconv"
	"strings"
	"sync"
	"testing"
	"time"

	"github.com/prometheus/client_golang/prometheus"
	"github.com/relex/gotils/logger"
	"github.com/relex/slog-agent/base"
	"github.com/relex/slog-agent/run"
	"pgregory.net/rapid"

	"verifharness/vh"
)

func init() { vh.QuietLogs(logger.FatalLevel) }

// ---------------------------------------------------------------------------
// case

type ConnScript struct {
	Slot        int  `json:"slot"`        // client number (socket descriptor)
	Accepts     int  `json:"accepts"`     // batches delivered while the socket is open
	FinalFlush  bool `json:"finalFlush"`  // one more batch + Tick after the socket was closed (the listener's final flush)
	After       int  `json:"after"`       // index of the connection whose socket must be closed before this one opens (-1 = none); used for slot reuse
}

type Case struct {
	Conns    []ConnScript `json:"conns"`
	Reloads  []bool       `json:"reloads"`  // one entry per reload attempt, in order: true = new configuration valid
	Schedule []int        `json:"schedule"` // at step i release the (Schedule[i] mod enabled)-th enabled actor; beyond the list: the first
}

// ---------------------------------------------------------------------------
// scheduler with gates

type actor struct {
	id      int
	name    string
	state   int // 0 running, 1 at gate, 2 finished
	gate    chan struct{}
	atWhat  string
	panicked *vh.Finding
}

type world struct {
	mu       sync.Mutex
	actors   []*actor
	byGID    map[uint64]*actor
	changed  chan struct{}
	events   []string
	orchSeq  int
	sinkSeq  int
	problems []*vh.Finding
	batches  map[string][]string // batch id -> downstream deliveries ("orchN/sinkM")
	sinks    []*fakeSink
	orchs    []*fakeOrch
	inReload bool
	reloadCalls []string // downstream calls made during the current reload attempt
}

func gid() uint64 {
	var buf [64]byte
	n := runtime.Stack(buf[:], false)
	f := bytes.Fields(buf[:n])
	id, _ := strconv.ParseUint(string(f[1]), 10, 64)
	return id
}

func (w *world) note() {
	select {
	case w.changed <- struct{}{}:
	default:
	}
}

func (w *world) log(format string, args ...any) {
	w.events = append(w.events, fmt.Sprintf(format, args...))
}

// byReloader reports whether the calling goroutine is the reloader actor (w.mu held).
func (w *world) byReloader() bool {
	a := w.byGID[gid()]
	return a != nil && a.name == "reloader" && w.inReload
}

func (w *world) problem(key, format string, args ...any) {
	w.problems = append(w.problems, vh.Fail(key, format, args...))
}

// gate blocks the calling actor until the scheduler releases it.
func (w *world) gate(what string) {
	w.mu.Lock()
	a := w.byGID[gid()]
	if a == nil {
		w.mu.Unlock()
		return // not an actor (e.g. set-up code)
	}
	a.state, a.atWhat = 1, what
	w.mu.Unlock()
	w.note()
	<-a.gate
}

type fakeOrch struct {
	w        *world
	id       int
	shutdown bool
}

type fakeSink struct {
	w      *world
	id     int
	orch   *fakeOrch
	slot   base.ClientNumber
	closed int
}

func (w *world) newOrch() *fakeOrch {
	w.mu.Lock()
	defer w.mu.Unlock()
	w.orchSeq++
	o := &fakeOrch{w: w, id: w.orchSeq}
	w.orchs = append(w.orchs, o)
	return o
}

func (o *fakeOrch) NewSink(addr string, num base.ClientNumber) base.BufferReceiverSink {
	o.w.gate(fmt.Sprintf("orc%d.NewSink(%d)", o.id, num))
	o.w.mu.Lock()
	defer o.w.mu.Unlock()
	o.w.sinkSeq++
	s := &fakeSink{w: o.w, id: o.w.sinkSeq, orch: o, slot: num}
	o.w.sinks = append(o.w.sinks, s)
	o.w.log("orc%d.NewSink(slot %d) -> sink%d", o.id, num, s.id)
	if o.w.byReloader() {
		o.w.reloadCalls = append(o.w.reloadCalls, "NewSink")
	}
	if o.shutdown {
		o.w.problem("reload:newsink-on-shut-down-orchestrator", "NewSink(slot %d) reached orchestrator %d after its Shutdown", num, o.id)
	}
	return s
}

func (o *fakeOrch) Shutdown() {
	o.w.gate(fmt.Sprintf("orc%d.Shutdown", o.id))
	o.w.mu.Lock()
	defer o.w.mu.Unlock()
	o.w.log("orc%d.Shutdown", o.id)
	if o.w.byReloader() {
		o.w.reloadCalls = append(o.w.reloadCalls, "Shutdown")
	}
	if o.shutdown {
		o.w.problem("reload:double-shutdown", "orchestrator %d shut down twice", o.id)
	}
	o.shutdown = true
}

func (s *fakeSink) Accept(buffer []*base.LogRecord) {
	s.w.gate(fmt.Sprintf("sink%d.Accept", s.id))
	s.w.mu.Lock()
	defer s.w.mu.Unlock()
	id := string(buffer[0].Fields[0])
	s.w.log("orc%d/sink%d.Accept(%s)", s.orch.id, s.id, id)
	if s.orch.shutdown {
		s.w.problem("reload:accept-after-shutdown", "batch %s was handed to sink %d of orchestrator %d after that orchestrator had been shut down", id, s.id, s.orch.id)
		return
	}
	if s.closed > 0 {
		s.w.problem("reload:accept-after-close", "batch %s was handed to sink %d (orchestrator %d) after the sink had been closed", id, s.id, s.orch.id)
		return
	}
	s.w.batches[id] = append(s.w.batches[id], fmt.Sprintf("orc%d/sink%d", s.orch.id, s.id))
}

func (s *fakeSink) Tick() {
	s.w.gate(fmt.Sprintf("sink%d.Tick", s.id))
	s.w.mu.Lock()
	defer s.w.mu.Unlock()
	s.w.log("orc%d/sink%d.Tick", s.orch.id, s.id)
	if s.orch.shutdown || s.closed > 0 {
		s.w.problem("reload:tick-after-shutdown", "Tick reached sink %d of orchestrator %d after shutdown/close", s.id, s.orch.id)
	}
}

func (s *fakeSink) Close() {
	s.w.gate(fmt.Sprintf("sink%d.Close", s.id))
	s.w.mu.Lock()
	defer s.w.mu.Unlock()
	s.w.log("orc%d/sink%d.Close", s.orch.id, s.id)
	if s.w.byReloader() {
		s.w.reloadCalls = append(s.w.reloadCalls, "Close")
	}
	s.closed++
	if s.closed > 1 {
		s.w.problem("reload:sink-closed-twice", "sink %d of orchestrator %d closed %d times", s.id, s.orch.id, s.closed)
	}
	if s.orch.shutdown {
		s.w.problem("reload:close-after-shutdown", "Close reached sink %d after its orchestrator %d had been shut down", s.id, s.orch.id)
	}
}

func reloadCounter(status string) float64 {
	mfs, _ := prometheus.DefaultGatherer.Gather()
	for _, mf := range mfs {
		if mf.GetName() == "slogagent_reloads_total" {
			for _, m := range mf.GetMetric() {
				for _, l := range m.GetLabel() {
					if l.GetName() == "status" && l.GetValue() == status {
						return m.GetCounter().GetValue()
					}
				}
			}
		}
	}
	return 0
}

// ---------------------------------------------------------------------------

func runCase(c Case) (res vh.Result, enabledCounts []int) {
	w := &world{byGID: map[uint64]*actor{}, changed: make(chan struct{}, 1), batches: map[string][]string{}}
	first := w.newOrch()
	reloadIdx := 0
	var reloadMu sync.Mutex
	initiate := func() (run.CompleteReloadingFunc, error) {
		reloadMu.Lock()
		valid := c.Reloads[reloadIdx]
		reloadIdx++
		reloadMu.Unlock()
		w.gate("initiateReload")
		if !valid {
			return nil, errors.New("scripted: invalid configuration")
		}
		return func() base.Orchestrator {
			w.gate("completeReload")
			return w.newOrch()
		}, nil
	}
	rorc := run.NewReloadableOrchestrator(first, initiate)

	socketClosed := make([]chan struct{}, len(c.Conns))
	for i := range socketClosed {
		socketClosed[i] = make(chan struct{})
	}
	sent := map[string]bool{}
	var sentMu sync.Mutex
	mkBatch := func(conn, n int) []*base.LogRecord {
		id := fmt.Sprintf("c%d-b%d", conn, n)
		sentMu.Lock()
		sent[id] = true
		sentMu.Unlock()
		return []*base.LogRecord{{Fields: base.LogFields{id}}}
	}
	var wg sync.WaitGroup
	launch := func(name string, body func()) {
		a := &actor{id: len(w.actors), name: name, gate: make(chan struct{})}
		w.actors = append(w.actors, a)
		wg.Add(1)
		ready := make(chan struct{})
		go func() {
			defer wg.Done()
			w.mu.Lock()
			w.byGID[gid()] = a
			w.mu.Unlock()
			close(ready)
			defer func() {
				if r := recover(); r != nil {
					a.panicked = vh.PanicFinding(r, stackOf())
				}
				w.mu.Lock()
				a.state = 2
				w.mu.Unlock()
				w.note()
			}()
			w.gate("start")
			body()
		}()
		<-ready
	}
	for i, cs := range c.Conns {
		i, cs := i, cs
		launch(fmt.Sprintf("conn%d(slot %d)", i, cs.Slot), func() {
			if cs.After >= 0 {
				<-socketClosed[cs.After]
			}
			sink := rorc.NewSink(fmt.Sprintf("client%d", i), base.ClientNumber(cs.Slot))
			for n := 0; n < cs.Accepts; n++ {
				sink.Accept(mkBatch(i, n))
			}
			close(socketClosed[i]) // the descriptor may be reused from here on
			if cs.FinalFlush {
				sink.Accept(mkBatch(i, cs.Accepts))
				sink.Tick()
			}
			sink.Close()
		})
	}
	failuresBefore, successBefore := reloadCounter("failure"), reloadCounter("success")
	wantFail, wantOK := 0, 0
	for _, v := range c.Reloads {
		if v {
			wantOK++
		} else {
			wantFail++
		}
	}
	if len(c.Reloads) > 0 {
		launch("reloader", func() {
			for _, valid := range c.Reloads {
				w.mu.Lock()
				w.inReload, w.reloadCalls = true, nil
				w.mu.Unlock()
				rorc.ReloadForVerif()
				w.mu.Lock()
				calls := w.reloadCalls
				w.inReload = false
				if !valid && len(calls) > 0 {
					w.problem("reload:failed-reload-had-effects", "a reload with an invalid configuration called %v downstream", calls)
				}
				w.mu.Unlock()
			}
		})
	}

	// scheduler
	step := 0
	deadline := time.Now().Add(20 * time.Second)
	for {
		// wait for quiescence: no actor running, or no change for 3 ms (an actor blocked on the orchestrator's lock or on a precondition)
		for {
			w.mu.Lock()
			running := 0
			for _, a := range w.actors {
				if a.state == 0 {
					running++
				}
			}
			w.mu.Unlock()
			if running == 0 {
				break
			}
			select {
			case <-w.changed:
				continue
			case <-time.After(3 * time.Millisecond):
			}
			break
		}
		w.mu.Lock()
		var enabled []*actor
		unfinished := 0
		for _, a := range w.actors {
			if a.state == 1 {
				enabled = append(enabled, a)
			}
			if a.state != 2 {
				unfinished++
			}
		}
		w.mu.Unlock()
		if unfinished == 0 {
			break
		}
		if time.Now().After(deadline) {
			res.Violation = vh.Fail("reload:deadlock", "actors did not finish within 20 s\n%s\n%s", strings.Join(w.events, "\n"), vh.GoroutineDump())
			res.NonTrivial = true
			return res, enabledCounts
		}
		if len(enabled) == 0 {
			time.Sleep(time.Millisecond)
			continue
		}
		choice := 0
		if step < len(c.Schedule) {
			choice = c.Schedule[step] % len(enabled)
		}
		enabledCounts = append(enabledCounts, len(enabled))
		step++
		a := enabled[choice]
		w.mu.Lock()
		a.state = 0
		w.log("  -- release %s at %s", a.name, a.atWhat)
		w.mu.Unlock()
		a.gate <- struct{}{}
	}
	wg.Wait()

	// ---- oracle
	hist := strings.Join(w.events, "\n")
	for _, a := range w.actors {
		if a.panicked != nil {
			a.panicked.Msg = fmt.Sprintf("%s panicked: %s\nhistory:\n%s", a.name, a.panicked.Msg, hist)
			res.Violation = a.panicked
			res.NonTrivial = true
			return res, enabledCounts
		}
	}
	if len(w.problems) > 0 {
		f := w.problems[0]
		f.Msg += "\nhistory:\n" + hist
		res.Violation = f
		res.NonTrivial = true
		return res, enabledCounts
	}
	var ids []string
	for id := range sent {
		ids = append(ids, id)
	}
	sort.Strings(ids)
	for _, id := range ids {
		if n := len(w.batches[id]); n != 1 {
			key := "reload:batch-lost"
			if n > 1 {
				key = "reload:batch-duplicated"
			}
			res.Violation = vh.Fail(key, "batch %s reached %d live downstream sinks %v\nhistory:\n%s", id, n, w.batches[id], hist)
			res.NonTrivial = true
			return res, enabledCounts
		}
	}
	for _, s := range w.sinks {
		if s.closed != 1 && !s.orch.shutdown {
			res.Violation = vh.Fail("reload:sink-leaked", "sink %d (slot %d) of live orchestrator %d was closed %d times although every connection has ended\nhistory:\n%s", s.id, s.slot, s.orch.id, s.closed, hist)
			res.NonTrivial = true
			return res, enabledCounts
		}
	}
	live := 0
	for _, o := range w.orchs {
		if !o.shutdown {
			live++
		}
	}
	if live != 1 {
		res.Violation = vh.Fail("reload:live-orchestrators", "%d orchestrators are live at the end\nhistory:\n%s", live, hist)
		return res, enabledCounts
	}
	if df, ds := reloadCounter("failure")-failuresBefore, reloadCounter("success")-successBefore; int(df) != wantFail || int(ds) != wantOK {
		res.Violation = vh.Fail("reload:counters", "slogagent_reloads_total grew by success=%v failure=%v, expected %d/%d", ds, df, wantOK, wantFail)
		return res, enabledCounts
	}
	// classes
	reuse := false
	for _, cs := range c.Conns {
		if cs.After >= 0 {
			reuse = true
		}
	}
	reloadDuringTraffic := false
	sawReloadStart, trafficAfter := false, false
	for _, e := range w.events {
		if strings.Contains(e, "release reloader") {
			sawReloadStart = true
		}
		if sawReloadStart && strings.Contains(e, ".Accept(") {
			trafficAfter = true
		}
	}
	reloadDuringTraffic = sawReloadStart && trafficAfter
	res.NonTrivial = reloadDuringTraffic || reuse
	if reloadDuringTraffic {
		res.Classes = append(res.Classes, "traffic-after-reload-started")
	}
	if reuse {
		res.Classes = append(res.Classes, "slot-reuse")
	}
	if wantFail > 0 {
		res.Classes = append(res.Classes, "failed-reload")
	}
	if wantOK > 0 {
		res.Classes = append(res.Classes, "successful-reload")
	}
	return res, enabledCounts
}

func stackOf() []byte {
	buf := make([]byte, 1<<14)
	return buf[:runtime.Stack(buf, false)]
}

// ---------------------------------------------------------------------------

func genCase(t *rapid.T) Case {
	var c Case
	n := rapid.IntRange(1, 4).Draw(t, "nconns")
	for i := 0; i < n; i++ {
		cs := ConnScript{Slot: rapid.SampledFrom([]int{5, 6, 7}).Draw(t, "slot"), Accepts: rapid.IntRange(0, 3).Draw(t, "accepts"), FinalFlush: rapid.Bool().Draw(t, "finalFlush"), After: -1}
		// a descriptor is unique among open sockets: a connection on a slot used by an earlier one opens after that socket was closed
		for j := i - 1; j >= 0; j-- {
			if c.Conns[j].Slot == cs.Slot {
				cs.After = j
				break
			}
		}
		c.Conns = append(c.Conns, cs)
	}
	nr := rapid.IntRange(0, 2).Draw(t, "nreloads")
	for i := 0; i < nr; i++ {
		c.Reloads = append(c.Reloads, rapid.IntRange(0, 2).Draw(t, "valid") > 0)
	}
	c.Schedule = rapid.SliceOfN(rapid.IntRange(0, 5), 0, 60).Draw(t, "schedule")
	return c
}

func TestC17Random(t *testing.T) {
	vh.Run(t, vh.Spec[Case]{
		Name: "schedules", Gen: genCase, Run: func(c Case) vh.Result { r, _ := runCase(c); return r }, Quick: 400, Thorough: 6000, ShrinkSeconds: 10,
		Rule: "the real run.ReloadableOrchestrator between gated recording fakes: 1-4 connection actors (NewSink, 0-3 Accepts, socket closed, optional final flush Accept+Tick, Close; a descriptor is reused only after the previous socket was closed, as the real listener does) and 0-2 reloads with valid or invalid new configuration (hook H4); every call into a fake is a gate and the generated schedule releases one gated call at a time; oracle on the recorded history: no call reaches a sink or orchestrator after its Shutdown/Close, every batch reaches exactly one live downstream sink, a failed reload causes no downstream call and one failure count, every sink of the live orchestrator is closed exactly once, exactly one orchestrator stays live, no panic, no deadlock; non-trivial = traffic after a reload started, or a reused slot",
	})
}

// systematic exploration of all schedules of small scenarios (stateless DFS over the choice of the actor to release)
type Explore struct {
	Scenario int   `json:"scenario"`
	Choices  []int `json:"choices"`
}

var scenarios = []Case{
	{Conns: []ConnScript{{Slot: 5, Accepts: 1, FinalFlush: true, After: -1}, {Slot: 6, Accepts: 1, After: -1}}, Reloads: []bool{true}},
	{Conns: []ConnScript{{Slot: 5, Accepts: 1, FinalFlush: true, After: -1}, {Slot: 5, Accepts: 1, After: 0}}, Reloads: []bool{true}},
	{Conns: []ConnScript{{Slot: 5, Accepts: 2, After: -1}, {Slot: 6, Accepts: 0, FinalFlush: true, After: -1}}, Reloads: []bool{false}},
	{Conns: []ConnScript{{Slot: 5, Accepts: 1, FinalFlush: true, After: -1}, {Slot: 5, Accepts: 1, After: 0}}, Reloads: nil},
}

func runExplore(e Explore) vh.Result {
	c := scenarios[e.Scenario]
	c.Schedule = e.Choices
	r, _ := runCase(c)
	r.Classes = append(r.Classes, fmt.Sprintf("scenario-%d", e.Scenario))
	return r
}

func enumSchedules(yield func(Explore) bool) {
	limit := 700
	if vh.Tier == "thorough" {
		limit = 20000
	}
	for si := range scenarios {
		if vh.NShards > 1 && si%vh.NShards != vh.Shard%len(scenarios) {
			continue
		}
		choices := []int{}
		for n := 0; n < limit; n++ {
			c := scenarios[si]
			c.Schedule = choices
			_, counts := runCase(c)
			if !yield(Explore{Scenario: si, Choices: append([]int(nil), choices...)}) {
				return
			}
			// next schedule in DFS order
			full := make([]int, len(counts))
			copy(full, choices)
			i := len(counts) - 1
			for ; i >= 0; i-- {
				if full[i]+1 < counts[i] {
					break
				}
			}
			if i < 0 {
				break // all schedules of this scenario explored
			}
			full[i]++
			choices = full[:i+1]
		}
	}
}

func TestC17Systematic(t *testing.T) {
	vh.Run(t, vh.Spec[Explore]{
		Name: "systematic", Run: runExplore, Enum: enumSchedules,
		Rule: "stateless depth-first exploration of the schedules (which gated call is released next) of four small scenarios: two connections on different slots + a valid reload; slot reuse + a valid reload; two connections + an invalid reload; slot reuse without reload; bounded to 700 schedules per scenario in quick and 20000 in thorough; same oracle; every explored schedule is distinct by construction",
	})
}
