#!/bin/bash
# seedaccept.sh <Cxx> <name> <worktree> <round> "<breaks>" "<needs>": confirm+import a sub-agent seed, write meta.json, self-test it.
set -u
PID=$1; NAME=$2; WT=$3; ROUND=$4; BREAKS=$5; NEEDS=$6
cd /verif
./seedimport.sh $PID $NAME $WT 2>&1 | grep -vE "^time=|level=" | grep -E "suite rc|with rc|PATCH DOES NOT|BUILD FAILS|imported|destination not found" | cut -c1-200
python3 - "$PID" "$NAME" "$ROUND" "$BREAKS" "$NEEDS" <<'PY'
import json,sys
pid,name,rnd,breaks,needs=sys.argv[1:6]
json.dump({"property":pid,"name":name,"round":int(rnd),"origin":"sub-agent seed%s-%s (given only the property text, the anchor file list, a diversification hint and its own worktree)"%(rnd,pid),"breaks":breaks,"needs":needs,"confirmed":"seedimport.sh in a fresh scratch worktree of /repo HEAD: patch applies, build ok, go test ./... passes, the agent's demonstration fails with the change and passes without it"},open('/verif/seeded/%s/meta.json'%name,'w'),indent=1)
PY
./check --selftest $NAME 2>&1 | grep SELFTEST | cut -c1-300
