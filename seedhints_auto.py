#!/usr/bin/env python3
"""seedhints_auto.py <Cxx>: a diversification hint listing the mechanisms of all earlier seeded changes of that property."""
import json, glob, sys
pid = sys.argv[1]
items = []
for m in sorted(glob.glob('/verif/seeded/*/meta.json')):
    d = json.load(open(m))
    if d.get('property') == pid:
        b = d.get('breaks', '')
        b = b.split(':')[0] if len(b.split(':')[0]) > 60 else b
        items.append(b[:200].rstrip() + ('…' if len(b) > 200 else ''))
print("Earlier attempts already covered these mechanisms, so do something clearly different (another function, another kind of mistake): "
      + " ".join("(%d) %s;" % (i + 1, x) for i, x in enumerate(items))
      + " Prefer a mistake that needs a multi-step history, a rarely taken path, or two cooperating sites that each look fine alone.")
