#!/usr/bin/env python3
"""mkmut2.py <name> <file-in-repo> <old> <new> : creates /verif/mutants/<name>.patch WITHOUT touching /repo (diff of a temp copy)."""
import sys, subprocess, os, tempfile
name, f, old, new = sys.argv[1:5]
s = open(os.path.join("/repo", f)).read()
if s.count(old) != 1:
    sys.exit("old string occurs %d times" % s.count(old))
with tempfile.TemporaryDirectory() as d:
    open(os.path.join(d, "new"), "w").write(s.replace(old, new))
    r = subprocess.run(["diff", "-u", "--label", "a/" + f, "--label", "b/" + f, os.path.join("/repo", f), os.path.join(d, "new")], stdout=subprocess.PIPE, text=True)
    open("/verif/mutants/%s.patch" % name, "w").write("diff --git a/%s b/%s\n" % (f, f) + r.stdout)
print("ok", name)
